#!/bin/sh
# Offline setup: nothing to fetch. Every check rebuilds pigeon and its harness from /repo's working tree.
set -e
cd "$(dirname "$0")"
export GOFLAGS=-mod=mod GOPROXY=off
command -v java >/dev/null
command -v go >/dev/null
python3 -c 'import json,sys'
exit 0
