----------------------------- MODULE LeftRecImpl -----------------------------
(***************************************************************************)
(* pigeon's OWN left-recursion analysis, transcribed from                  *)
(* ast/ast.go (NullableVisit / IsNullable / InitialNames, with the flags   *)
(* cached in the nodes and Go's short-circuit evaluation) and              *)
(* builder/left_recursion.go (ComputeNullables: the rule flags as a least  *)
(* fix-point, every round computed from the flags of the previous round -- *)
(* since the repair of F28; before it every reference visited the rule     *)
(* again, cut short at a rule being visited, and the result depended on    *)
(* the visiting order).  The ORDER in which the rules of a round are       *)
(* visited is still a parameter, so that TLC can show for every grammar    *)
(* of the family that it no longer matters (C19, LeftRecOrders).           *)
(* Switches name what the code does and what a repair would do:            *)
(*   sw.choiceAll  : ChoiceExpr.NullableVisit visits every alternative     *)
(*                   (as built: stops at the first nullable one -- F6)     *)
(*   sw.descend    : & ! ? * + visit their operand (as built before        *)
(*                   the repair: no -- F5), & ! contribute initial names   *)
(*                   (F4), an empty class is not nullable (F7)             *)
(*   sw.throwDepth : > 0: a throw contributes the initial names of the     *)
(*                   recovery expressions listing its label (as built: 0   *)
(*                   -- known finding F22)                                 *)
(***************************************************************************)
EXTENDS Integers, Sequences, FiniteSets, TLC

St0(G) == [nf |-> [e \in 1..Len(G.nodes) |-> FALSE], rn |-> [i \in 1..Len(G.rules) |-> FALSE]]
R2(v, st) == [v |-> v, st |-> st]

(* st.nf = the flags cached in the nodes, st.rn = the rule flags of the PREVIOUS round (read by references) *)
RECURSIVE Visit(_,_,_,_), VisitSeq(_,_,_,_,_), VisitCh(_,_,_,_,_,_)
Visit(G, sw, e, st) ==
  LET n == G.nodes[e] IN
  CASE n.k = "lit" -> R2(Len(n.s) = 0, st)
    [] n.k = "cls" -> R2(IF sw.descend THEN FALSE ELSE (Len(n.s) = 0 /\ Len(n.rng) = 0 /\ Len(n.ucl) = 0), st)
    [] n.k = "any" -> R2(FALSE, st)
    [] n.k \in {"and", "not", "opt", "star"} ->
         IF sw.descend THEN R2(TRUE, Visit(G, sw, n.kids[1], st).st) ELSE R2(TRUE, st)
    [] n.k = "plus" ->                                                     \* e+ is nullable when e is (repair of F38)
         IF sw.descend THEN LET r == Visit(G, sw, n.kids[1], st) IN R2(r.v, [r.st EXCEPT !.nf[e] = r.v]) ELSE R2(FALSE, st)
    [] n.k = "label" -> Visit(G, sw, n.kids[1], st)
    [] n.k = "action" -> LET r == Visit(G, sw, n.kids[1], st) IN R2(r.v, [r.st EXCEPT !.nf[e] = r.v])
    [] n.k = "recover" ->                                                  \* both operands are visited (repair of F29)
         LET r1 == Visit(G, sw, n.kids[1], st)
             r2 == Visit(G, sw, n.kids[2], r1.st) IN R2(r1.v \/ r2.v, [r2.st EXCEPT !.nf[e] = (r1.v \/ r2.v)])
    [] n.k = "seq" -> VisitSeq(G, sw, e, 1, st)
    [] n.k = "choice" -> VisitCh(G, sw, e, 1, st, FALSE)
    [] n.k = "ref" -> R2(st.rn[n.rule], [st EXCEPT !.nf[e] = st.rn[n.rule]])      \* the flag computed so far, no visit of the rule
    [] OTHER -> R2(TRUE, st)                                              \* throw, state, code predicates
VisitSeq(G, sw, e, i, st) ==
  LET kids == G.nodes[e].kids IN
  IF i > Len(kids) THEN R2(TRUE, [st EXCEPT !.nf[e] = TRUE])
  ELSE LET r == Visit(G, sw, kids[i], st) IN
       IF r.v THEN VisitSeq(G, sw, e, i+1, r.st) ELSE R2(FALSE, [r.st EXCEPT !.nf[e] = FALSE])
VisitCh(G, sw, e, i, st, acc) ==
  LET kids == G.nodes[e].kids IN
  IF i > Len(kids) THEN R2(acc, [st EXCEPT !.nf[e] = acc])
  ELSE LET r == Visit(G, sw, kids[i], st) IN
       IF r.v /\ ~sw.choiceAll THEN R2(TRUE, [r.st EXCEPT !.nf[e] = TRUE])
       ELSE VisitCh(G, sw, e, i+1, r.st, acc \/ r.v)

(* one round: every rule (in the given order) from the rule flags of the previous round; next = the new rule flags *)
RECURSIVE Round(_,_,_,_,_,_)
Round(G, sw, order, i, st, next) ==
  IF i > Len(order) THEN [st EXCEPT !.rn = next]
  ELSE LET r == Visit(G, sw, G.rules[order[i]], st) IN Round(G, sw, order, i+1, r.st, [next EXCEPT ![order[i]] = r.v])
RECURSIVE ComputeNullables(_,_,_,_,_)
ComputeNullables(G, sw, order, i, st) ==            \* i counts the rounds (at most one more than there are rules)
  LET st1 == Round(G, sw, order, 1, st, st.rn) IN
  IF st1.rn = st.rn \/ i > Len(G.rules) + 1 THEN st1 ELSE ComputeNullables(G, sw, order, i+1, st1)

RECURSIVE IsNul(_,_,_)
IsNul(G, st, e) ==
  LET n == G.nodes[e] IN
  CASE n.k = "lit" -> Len(n.s) = 0
    [] n.k = "cls" -> FALSE
    [] n.k = "any" -> FALSE
    [] n.k \in {"and", "not", "opt", "star"} -> TRUE
    [] n.k = "label" -> IsNul(G, st, n.kids[1])
    [] n.k \in {"plus", "action", "recover", "seq", "choice", "ref"} -> st.nf[e]
    [] OTHER -> TRUE
IsNulB(G, sw, st, e) == IF G.nodes[e].k = "cls" /\ ~sw.descend
                        THEN (Len(G.nodes[e].s) = 0 /\ Len(G.nodes[e].rng) = 0 /\ Len(G.nodes[e].ucl) = 0) ELSE IsNul(G, st, e)

RECURSIVE Names(_,_,_,_), NamesSeq(_,_,_,_,_)
Names(G, sw, st, e) ==
  LET n == G.nodes[e] IN
  CASE n.k = "ref" -> {n.rule}
    [] n.k \in {"and", "not"} -> IF sw.descend THEN Names(G, sw, st, n.kids[1]) ELSE {}
    [] n.k \in {"opt", "star", "plus", "label", "action"} -> Names(G, sw, st, n.kids[1])
    [] n.k = "recover" -> Names(G, sw, st, n.kids[1]) \cup Names(G, sw, st, n.kids[2])
    [] n.k = "choice" -> UNION {Names(G, sw, st, n.kids[i]) : i \in 1..Len(n.kids)}
    [] n.k = "seq" -> NamesSeq(G, sw, st, n.kids, 1)
    \* NOT in pigeon (sw.throwDepth = 0 as built): a throw may run, at its own position, the recovery expression of any
    \* recovery operator listing its label -- the operator is still in force while its recovery expression runs (F22)
    [] n.k = "throw" /\ sw.throwDepth > 0 ->
         UNION {Names(G, [sw EXCEPT !.throwDepth = @ - 1], st, G.nodes[h].kids[2]) :
                  h \in {x \in 1..Len(G.nodes) : G.nodes[x].k = "recover" /\ n.lab \in {G.nodes[x].labs[i] : i \in 1..Len(G.nodes[x].labs)}}}
    [] OTHER -> {}
NamesSeq(G, sw, st, kids, i) ==
  IF i > Len(kids) THEN {}
  ELSE Names(G, sw, st, kids[i]) \cup (IF IsNulB(G, sw, st, kids[i]) THEN NamesSeq(G, sw, st, kids, i+1) ELSE {})

RECURSIVE ReachI(_,_,_)
ReachI(edges, S, n) == IF n = 0 THEN S ELSE ReachI(edges, S \cup UNION {edges[v] : v \in S}, n-1)

(* the result of the analysis for one iteration order: the first graph, the rules on a cycle,  *)
(* whether the grammar is rejected without the flag                                            *)
Analyse(G, sw, order) ==
  LET st == ComputeNullables(G, sw, order, 1, St0(G))
      edges == [i \in 1..Len(G.rules) |-> Names(G, sw, st, G.rules[i])]
      rec == {i \in 1..Len(G.rules) : i \in ReachI(edges, edges[i], Len(G.rules))}
  IN [edges |-> edges, leftrec |-> rec, reject |-> rec # {}]

Identity(G) == [i \in 1..Len(G.rules) |-> i]
AsRepaired == [choiceAll |-> FALSE, descend |-> TRUE, throwDepth |-> 0]
AsF6Repaired == [choiceAll |-> TRUE, descend |-> TRUE, throwDepth |-> 0]
AsF22Repaired == [choiceAll |-> TRUE, descend |-> TRUE, throwDepth |-> 3]
=============================================================================
