---------------------------- MODULE TraceOptions ----------------------------
(***************************************************************************)
(* Validation of option-protocol traces against Options.tla.               *)
(* A trace line is one sequence of steps taken on a real parser object     *)
(* inside a generated package (runner: runOptSeqs): "fresh" applies a newly *)
(* built option value, "undo" the value RETURNED by an earlier step,        *)
(* "reuse" the very value an earlier step applied; after every step the     *)
(* parser's configuration was projected (cfgs).  One TLC step consumes one  *)
(* line: the model takes the same steps (Options!Apply) and every projected *)
(* configuration must be the model's.  Lines are concatenated (every        *)
(* sequence starts from a fresh parser = Options!Init).                     *)
(***************************************************************************)
EXTENDS Options, Json, TLC

Obs == ndJsonDeserialize("optobs.ndjson")
Cfg == JsonDeserialize("optcase.json")      \* [std |-> variant has Debug/Memoize/Statistics, state |-> has the state store]

B2(x) == IF x THEN 1 ELSE 0
Proj(c) == [max |-> c.max, entry |-> c.entry, debug |-> B2(c.debug), memo |-> B2(c.memo), allowinv |-> B2(c.allowinv),
            recover |-> B2(c.recover), stats |-> c.stats, nomatch |-> c.nomatch,
            gs |-> <<c.gs["k1"], c.gs["k2"]>>, st |-> <<c.st["k1"], c.st["k2"]>>]

ToOpt(o) == Opt(o.k, o.key, o.a, o.b)

(* the model run of one line: returns the index of the first step whose recorded configuration differs (0 = none) *)
RECURSIVE RunLine(_,_,_,_,_)
RunLine(ln, i, c, gv, rt) ==
  IF i > Len(ln.steps) THEN 0
  ELSE LET s == ln.steps[i]
           o == IF s.k = "fresh" THEN ToOpt(s.o) ELSE IF s.k = "undo" THEN rt[s.j] ELSE gv[s.j]
           c1 == Set(c, o)
       IN IF Proj(c1) # ln.cfgs[i + 1] THEN i
          ELSE RunLine(ln, i + 1, c1, Append(gv, o), Append(rt, Prev(c, o)))

VARIABLES l, nbad
tvars == <<l, nbad>>
Check(ln) ==
  IF ln.note # "" THEN <<"note", 0>>
  ELSE IF Len(ln.cfgs) # Len(ln.steps) + 1 THEN <<"short", Len(ln.cfgs)>>
  ELSE IF Proj(Cfg0) # ln.cfgs[1] THEN <<"fresh", 0>>
  ELSE LET d == RunLine(ln, 1, Cfg0, <<>>, <<>>) IN IF d = 0 THEN <<"same", 0>> ELSE <<"step", d>>

TInit == l = 1 /\ nbad = 0
TNext == /\ l <= Len(Obs)
         /\ LET r == Check(Obs[l]) IN
            /\ IF r[1] # "same"
               THEN PrintT("DIVERGE " \o ToJson([si |-> Obs[l].si, df |-> r[1], at |-> r[2]]))
               ELSE TRUE
            /\ nbad' = nbad + (IF r[1] = "same" THEN 0 ELSE 1)
         /\ l' = l + 1
         /\ IF l' > Len(Obs) THEN PrintT("DONE " \o ToJson([n |-> Len(Obs), bad |-> nbad'])) ELSE TRUE
Spec == TInit /\ [][TNext]_tvars
Accepted == TRUE
=============================================================================
