------------------------------- MODULE TraceT2 -------------------------------
(***************************************************************************)
(* T2: validation of step-level traces.  The lines that Debug(true) prints *)
(* on entering and leaving the parse functions ("> l:c:off: fn", "<") of a *)
(* real run are the trace; the specification is the design model M         *)
(* (PegMachine).  One TLC step executes one step of M; a step that carries *)
(* a label must be the next line of the trace (function, direction, line,  *)
(* col, offset), a silent step consumes nothing.  The invariants of the    *)
(* properties (PosIsPure, StepChecks, BudgetBound) are thereby evaluated   *)
(* in every state of REAL executions, and acceptance shows that the real   *)
(* run was a behaviour of M (M is bound to the code).  A rejected trace is *)
(* reported with the position of the first divergent line; traces are      *)
(* concatenated (the Reset disjunct).                                      *)
(***************************************************************************)
EXTENDS PegMachine, Json, SequencesExt

Groups == ndJsonDeserialize("groups.ndjson")
Cfg    == JsonDeserialize("tcase.json")
Traces == ndJsonDeserialize("t2.ndjson")        \* [gi, ii, oi, ok, evs: [[dir, fn, line, col, off]]]

CaseOfT(t) == LET opt == Cfg.options[t.oi] IN
  [G |-> Groups[t.gi], inp |-> Cfg.inputs[t.ii], opt |-> opt, errblks |-> ToSet(opt.errblks),
   lower |-> Cfg.lower, uclass |-> Cfg.uclass, entry |-> 1, asbuilt |-> Cfg.asbuilt]

VARIABLES k, j, m, bad
vars == <<k, j, m, bad>>
Start(kk) == IF kk <= Len(Traces) THEN MInit(CaseOfT(Traces[kk])) ELSE MInit(CaseOfT(Traces[1]))
Init == k = 1 /\ j = 1 /\ m = Start(1) /\ bad = 0
Reject(why) == /\ PrintT("REJECT " \o ToJson([k |-> k, gi |-> Traces[k].gi, ii |-> Traces[k].ii, oi |-> Traces[k].oi, line |-> j, why |-> why]))
               /\ bad' = bad + 1 /\ k' = k + 1 /\ j' = 1 /\ m' = Start(k + 1)
Next ==
  /\ k <= Len(Traces)
  /\ LET t == Traces[k]  C == CaseOfT(t) IN
     IF m.mode = "done" THEN
          \* a run ended by the budget panic unwinds: the deferred "<" lines of the open frames follow
          IF \/ (j = Len(t.evs) + 1 /\ (m.ab = "budget" \/ m.res.ok = t.ok))
             \/ (m.ab = "budget" /\ \A q \in j..Len(t.evs) : t.evs[q][1] = "<")
          THEN bad' = bad /\ k' = k + 1 /\ j' = 1 /\ m' = Start(k + 1)           \* accepted: reset for the next trace
          ELSE Reject("end")
     ELSE LET m2 == Step(C, m) IN
          IF m2.lbl[1] = "-" THEN m' = m2 /\ UNCHANGED <<k, j, bad>>
          ELSE IF j <= Len(t.evs) /\ t.evs[j] = m2.lbl THEN m' = m2 /\ j' = j + 1 /\ UNCHANGED <<k, bad>>
          ELSE Reject("line")
Spec == Init /\ [][Next]_vars

PosIsPure == k <= Len(Traces) => PosOf(m.pt) = LineCol(CaseOfT(Traces[k]).inp, m.pt.off)
StepChecks == m.chk = "ok"
BudgetBound == k <= Len(Traces) => (CaseOfT(Traces[k]).opt.maxexpr > 0 => m.cnt <= CaseOfT(Traces[k]).opt.maxexpr + 1)
Accepted == (k > Len(Traces)) => PrintT("DONE " \o ToJson([n |-> Len(Traces), bad |-> bad]))
=============================================================================
