----------------------------- MODULE PegMachine -----------------------------
(***************************************************************************)
(* Layer M: the generated parser as a small-step machine, shaped like      *)
(* builder/static_code.go.  Its state is the `parser` struct:              *)
(*   pt (offset, line, col), cur.pos/cur.text, cur.state (store),          *)
(*   globalStore (g), vstack (vst), rstack (rst), errs, memo,              *)
(*   maxFailPos/maxFailExpected/maxFailInvertExpected (fmax, fset, finv),  *)
(*   Stats.ExprCnt (cnt), and the Go call stack as an explicit control     *)
(*   stack of frames (stk).                                                *)
(* One step = one critical section of a parseXxx function: entering it     *)
(* (parseExprWrap's memo lookup, parseExpr's budget charge, the function's *)
(* prologue: savepoint, cloneState, pushV), consuming a child's result     *)
(* (restoreState, restore, popV, binding a label, running a code block),   *)
(* or leaving it (memo store).  Every step carries the label of the line   *)
(* that Debug(true) prints at that point (or "-" for a silent step), so    *)
(* that real Debug traces can be validated against this machine (T2).      *)
(*                                                                         *)
(* Deviations of the code from the property-level meaning are NAMED:       *)
(*   AsBuilt.stalectx  predicate/state blocks see cur.pos/cur.text of the  *)
(*                     last action (known finding F1)                      *)
(*   AsBuilt.memolabel a memo hit on a labelled expression skips the       *)
(*                     binding (known finding F2: it is simply what the    *)
(*                     machine does; with the switch off the hit binds)    *)
(*   AsBuilt.freehit   a memo hit is not charged against the budget        *)
(*                     (known finding F3)                                  *)
(* Left-recursion support (parseRuleRecursiveLeader: seed in the memo      *)
(* table, growth attempts, last attempt undone) and throw/recover (the     *)
(* recovery stack rcv) are part of the machine.                            *)
(***************************************************************************)
EXTENDS PegRef

RECURSIVE JoinLabs(_,_)
JoinLabs(ls, i) == IF i > Len(ls) THEN "" ELSE ls[i] \o (IF i < Len(ls) THEN "," ELSE "") \o JoinLabs(ls, i+1)
FnName(C, e) ==
  LET n == C.G.nodes[e] IN
  CASE n.k = "lit" -> "parseLitMatcher" [] n.k = "cls" -> "parseCharClassMatcher" [] n.k = "any" -> "parseAnyMatcher"
    [] n.k = "seq" -> "parseSeqExpr" [] n.k = "choice" -> "parseChoiceExpr" [] n.k = "star" -> "parseZeroOrMoreExpr"
    [] n.k = "plus" -> "parseOneOrMoreExpr" [] n.k = "opt" -> "parseZeroOrOneExpr" [] n.k = "and" -> "parseAndExpr"
    [] n.k = "not" -> "parseNotExpr" [] n.k = "label" -> "parseLabeledExpr" [] n.k = "action" -> "parseActionExpr"
    [] n.k = "state" -> "parseStateCodeExpr" [] n.k = "andcode" -> "parseAndCodeExpr" [] n.k = "notcode" -> "parseNotCodeExpr"
    [] n.k = "ref" -> "parseRuleRefExpr " \o C.G.idents[n.rule]
    [] n.k = "recover" -> "parseRecoveryExpr (" \o JoinLabs(n.labs, 1) \o ")"
    [] n.k = "throw" -> "parseThrowExpr"
    [] OTHER -> "parse?"

(* read(): advance to the next rune, maintaining line and col incrementally (NOT LineCol: that is the property) *)
RECURSIVE ReadTo(_,_,_)
ReadTo(inp, pt, off) ==
  IF pt.off >= off THEN pt
  ELSE LET w == Decode(inp, pt.off)[2]
           o2 == pt.off + w
           d == Decode(inp, o2)
       IN ReadTo(inp, [off |-> o2, line |-> IF d[1] = 10 THEN pt.line + 1 ELSE pt.line,
                                  col |-> IF d[1] = 10 THEN 0 ELSE pt.col + 1], off)
Pt0(inp) == LET d == Decode(inp, 0) IN [off |-> 0, line |-> IF d[1] = 10 THEN 2 ELSE 1, col |-> IF d[1] = 10 THEN 0 ELSE 1]
PosOf(pt) == <<pt.line, pt.col, pt.off>>

NoPt == [off |-> 0, line |-> 0, col |-> 0]
Frame(kind, e) == [kind |-> kind, e |-> e, ph |-> 0, i |-> 0, acc |-> <<>>, pt0 |-> NoPt,
                   st0 |-> Store0, vd0 |-> 0, off0 |-> 0, rd0 |-> 0,
                   \* parseRuleRecursiveLeader's locals: depth, lastResult, lastErrors, lastState
                   depth |-> 0, last |-> [ok |-> FALSE, val |-> Nil, pt |-> NoPt], lerrs |-> <<>>, lstate |-> Store0]

MInit(C) ==
  LET x1 == Advance(C, X0, 0, "") IN          \* the first read(), outside any rule
  [stk |-> <<Frame("rule", C.entry)>>, mode |-> "eval", res |-> [ok |-> FALSE, val |-> Nil],
   pt |-> Pt0(C.inp), curpos |-> <<0, 0, 0>>, curtext |-> <<>>, store |-> XInit(C).store, g |-> XInit(C).g,
   vst |-> <<>>, rst |-> <<>>, errs |-> x1.errs, log |-> <<>>, fmax |-> 0, fset |-> {}, finv |-> FALSE,
   memo |-> {}, cnt |-> 3, ab |-> "none", lbl |-> <<"-", "", 0, 0, 0>>, chk |-> "ok", rcv |-> <<>>]

Top(m) == m.stk[Len(m.stk)]
Pop(m) == SubSeq(m.stk, 1, Len(m.stk) - 1)
SetTop(m, f) == [m.stk EXCEPT ![Len(m.stk)] = f]
Lbl(d, fn, pt) == <<d, fn, pt.line, pt.col, pt.off>>
RuleName(C, m) == IF m.rst = <<>> THEN "" ELSE C.G.names[m.rst[Len(m.rst)]]
TopEnv(m) == m.vst[Len(m.vst)]
PushV(m) == Append(m.vst, <<>>)
PopV(m) == SubSeq(m.vst, 1, Len(m.vst) - 1)
Memoizing(C) == C.opt.memo
(* the leftRecursive / leader flags the generator wrote into the grammar table (present only with -support-left-recursion) *)
LRec(C, ri) == C.G.lrflags # <<>> /\ C.G.lrflags[ri][1]
Leader(C, ri) == C.G.lrflags # <<>> /\ C.G.lrflags[ri][2]
InLR(C, m) == m.rst # <<>> /\ LRec(C, m.rst[Len(m.rst)])       \* expressions inside a left-recursive rule are not memoised
MemoX(C, m) == Memoizing(C) /\ ~InLR(C, m)

(* the step invariants (properties P) are evaluated where a frame is left: chk records the first that fails *)
ExitChk(m, f, ok, pt, store, vst) ==
  IF m.chk # "ok" THEN m.chk
  ELSE IF ~ok /\ pt.off # f.off0 THEN "FailConsumesNothing"
  ELSE IF ~ok /\ store # f.st0 THEN "StoreRolledBack"
  ELSE IF Len(vst) # f.vd0 THEN "VStackBalanced"
  ELSE "ok"

(* leave the top frame with a result: memo store (parseExprWrap / parseRuleMemoize), the "<" line, pop *)
Leave(C, m, fn, ok, val, pt, m2) ==
  LET f == Top(m)
      key == <<f.kind, f.e, f.off0>>
      store == IF f.kind = "rule" THEN Memoizing(C) /\ ~LRec(C, f.e) ELSE MemoX(C, m2)
      memo2 == IF store THEN {t \in m2.memo : t.key # key} \cup {[key |-> key, ok |-> ok, val |-> val, pt |-> pt]} ELSE m2.memo
  IN [m2 EXCEPT !.stk = Pop(m), !.mode = IF Len(m.stk) = 1 THEN "done" ELSE "ret", !.res = [ok |-> ok, val |-> val], !.pt = pt,
                !.memo = memo2, !.lbl = Lbl("<", fn, pt), !.chk = ExitChk(m2, f, ok, pt, m2.store, m2.vst)]

Call(m, f, e) == [m EXCEPT !.stk = Append(SetTop(m, f), Frame("x", e)), !.mode = "eval"]

XOf(C, m) == [X0 EXCEPT !.pos = m.pt.off, !.errs = m.errs, !.fmax = m.fmax, !.fset = m.fset]

BlockEvent(C, m, n, kind, pos, text, store) ==
  [blk |-> n.blk, kind |-> kind, pos |-> pos, text |-> text,
   args |-> <<"l", [i \in 1..Len(n.args) |-> Lookup(TopEnv(m), n.args[i], Len(TopEnv(m)))]>>, store |-> StoreSnap(store), g |-> m.g]
BlockErr(C, m, n, pos) == IF BlockErrs(C, n) THEN Append(m.errs, [pos |-> pos, alt |-> pos, rule |-> RuleName(C, m), msg |-> IF C.opt.samemsg THEN "same" ELSE "e" \o ToString(n.blk)])
                          ELSE m.errs

(* liveness configuration (C16): for a lasso to exist in a finite graph the value list of a looping repetition  *)
(* and the append-only logs are abstracted: lists are capped at C.asbuilt.acccap elements (0 = exact)             *)
CapAppend(C, sq, v) == IF C.asbuilt.acccap > 0 /\ Len(sq) >= C.asbuilt.acccap THEN sq ELSE Append(sq, v)

(* ---- one step ------------------------------------------------------------------------- *)
Step(C, m) ==
  LET f == Top(m) IN
  IF f.kind = "rule" THEN
     \* parseRuleWrap / parseRuleMemoize / parseRule
     LET fn == "parseRule " \o C.G.idents[f.e] IN
     IF m.mode = "eval" /\ f.ph = 0 THEN        \* "> parseRule NAME": then the rule-level memo lookup
          LET f1 == [f EXCEPT !.ph = 1, !.off0 = m.pt.off, !.pt0 = m.pt, !.st0 = m.store, !.vd0 = Len(m.vst), !.rd0 = Len(m.rst)] IN
          [m EXCEPT !.stk = SetTop(m, f1), !.lbl = Lbl(">", fn, m.pt)]
     ELSE IF m.mode = "eval" /\ f.ph = 1 /\ Leader(C, f.e) THEN
          \* parseRuleRecursiveLeader: the memo entry of (rule, offset) is the seed; it exists with and without Memoize
          LET key == <<"rule", f.e, m.pt.off>>
              hit == {t \in m.memo : t.key = key} IN
          IF hit # {} THEN
               LET t == CHOOSE t \in hit : TRUE IN
               [m EXCEPT !.stk = Pop(m), !.mode = IF Len(m.stk) = 1 THEN "done" ELSE "ret", !.res = [ok |-> t.ok, val |-> t.val],
                         !.pt = t.pt, !.lbl = Lbl("<", fn, t.pt)]
          ELSE [m EXCEPT !.stk = SetTop(m, [f EXCEPT !.ph = 3, !.depth = 0, !.last = [ok |-> FALSE, val |-> Nil, pt |-> m.pt], !.lerrs = m.errs]),
                         !.lbl = <<"-", "", 0, 0, 0>>]
     ELSE IF m.mode = "eval" /\ f.ph = 3 THEN
          \* one growth attempt: lastState := cloneState(); setMemoized(start, rule, lastResult); parseRule(rule)
          LET key == <<"rule", f.e, f.off0>> IN
          [m EXCEPT !.stk = Append(SetTop(m, [f EXCEPT !.ph = 4, !.lstate = m.store]), Frame("x", C.G.rules[f.e])), !.mode = "eval",
                    !.memo = {t \in m.memo : t.key # key} \cup {[key |-> key, ok |-> f.last.ok, val |-> f.last.val, pt |-> f.last.pt]},
                    !.rst = Append(m.rst, f.e), !.vst = PushV(m), !.lbl = <<"-", "", 0, 0, 0>>]
     ELSE IF f.ph = 4 THEN
          \* the attempt returned
          LET m1 == [m EXCEPT !.vst = PopV(m), !.rst = SubSeq(m.rst, 1, Len(m.rst) - 1)]
              key == <<"rule", f.e, f.off0>> IN
          IF ~m.res.ok \/ (m.pt.off <= f.last.pt.off /\ f.depth # 0) THEN
               \* the final, non-extending attempt: restoreState(lastState), errs = lastErrors, restore(lastResult.end), memo = lastResult
               LET m2 == [m1 EXCEPT !.store = f.lstate, !.errs = f.lerrs,
                                    !.memo = {t \in m1.memo : t.key # key} \cup {[key |-> key, ok |-> f.last.ok, val |-> f.last.val, pt |-> f.last.pt]}] IN
               [m2 EXCEPT !.stk = Pop(m), !.mode = IF Len(m.stk) = 1 THEN "done" ELSE "ret", !.res = [ok |-> f.last.ok, val |-> f.last.val],
                          !.pt = f.last.pt, !.lbl = Lbl("<", fn, f.last.pt)]
          ELSE [m1 EXCEPT !.stk = SetTop(m, [f EXCEPT !.ph = 3, !.depth = f.depth + 1, !.last = [ok |-> TRUE, val |-> m.res.val, pt |-> m.pt], !.lerrs = m.errs]),
                          !.mode = "eval", !.pt = f.pt0, !.lbl = <<"-", "", 0, 0, 0>>]
     ELSE IF m.mode = "eval" /\ f.ph = 1 THEN
          LET key == <<"rule", f.e, m.pt.off>>
              hit == {t \in m.memo : t.key = key} IN
          IF Memoizing(C) /\ ~LRec(C, f.e) /\ hit # {} THEN
               LET t == CHOOSE t \in hit : TRUE IN
               [m EXCEPT !.stk = Pop(m), !.mode = IF Len(m.stk) = 1 THEN "done" ELSE "ret", !.res = [ok |-> t.ok, val |-> t.val],
                         !.pt = t.pt, !.lbl = Lbl("<", fn, t.pt)]
          ELSE [m EXCEPT !.stk = Append(SetTop(m, [f EXCEPT !.ph = 2]), Frame("x", C.G.rules[f.e])), !.mode = "eval",
                         !.rst = Append(m.rst, f.e), !.vst = PushV(m), !.lbl = <<"-", "", 0, 0, 0>>]
     ELSE \* the body returned: popV, pop rstack, memo store, "< parseRule NAME"
          Leave(C, m, fn, m.res.ok, m.res.val, m.pt, [m EXCEPT !.vst = PopV(m), !.rst = SubSeq(m.rst, 1, Len(m.rst) - 1)])
  ELSE
  LET e == f.e  n == C.G.nodes[e]  fn == FnName(C, e)  rn == RuleName(C, m) IN
  IF m.mode = "eval" /\ f.ph = 0 THEN
     \* parseExprWrap: memo lookup, then parseExpr: charge the budget, then the function's prologue
     LET key == <<"x", e, m.pt.off>>
         hit == {t \in m.memo : t.key = key} IN
     IF MemoX(C, m) /\ hit # {} THEN
          LET t == CHOOSE t \in hit : TRUE
              bind == n.k = "label" /\ t.ok /\ ~C.asbuilt.memolabel       \* as built, the binding is skipped (F2)
              vst2 == IF bind THEN [m.vst EXCEPT ![Len(m.vst)] = Append(@, <<n.lab, t.val>>)] ELSE m.vst
              cnt2 == IF C.asbuilt.freehit THEN m.cnt ELSE m.cnt + 1      \* as built, a hit is free (F3)
          IN IF C.opt.maxexpr > 0 /\ cnt2 > C.opt.maxexpr
             THEN [m EXCEPT !.mode = "done", !.ab = "budget", !.cnt = cnt2, !.lbl = <<"-", "", 0, 0, 0>>]
             ELSE [m EXCEPT !.stk = Pop(m), !.mode = "ret", !.res = [ok |-> t.ok, val |-> t.val], !.pt = t.pt, !.vst = vst2, !.cnt = cnt2,
                            !.lbl = <<"-", "", 0, 0, 0>>]
     ELSE IF C.opt.maxexpr > 0 /\ m.cnt + 1 > C.opt.maxexpr
          THEN [m EXCEPT !.mode = "done", !.ab = "budget", !.cnt = m.cnt + 1, !.lbl = <<"-", "", 0, 0, 0>>]
     ELSE
     LET mc == [m EXCEPT !.cnt = m.cnt + 1, !.lbl = Lbl(">", fn, m.pt)]
         f1 == [f EXCEPT !.ph = 1, !.off0 = m.pt.off, !.pt0 = m.pt, !.st0 = m.store, !.vd0 = Len(m.vst)] IN
     CASE n.k \in {"lit", "cls", "any"} ->
            \* the terminal's decision is the meaning's (PegRef); the machine's part is read()/restore and the bookkeeping
            LET r == Ev([C EXCEPT !.opt.maxexpr = 0], e, XOf(C, m), m.finv, rn)
                pt2 == IF r.ok THEN ReadTo(C.inp, m.pt, r.x.pos) ELSE m.pt IN
            [mc EXCEPT !.stk = SetTop(m, [f1 EXCEPT !.ph = 9, !.acc = <<[ok |-> r.ok, val |-> r.val]>>]),
                       !.pt = pt2, !.errs = r.x.errs, !.fmax = r.x.fmax, !.fset = r.x.fset]
       [] n.k \in {"state", "andcode", "notcode"} ->
            LET stale == C.asbuilt.stalectx
                pos == IF stale THEN m.curpos ELSE PosOf(m.pt)
                text == IF stale THEN m.curtext ELSE <<>>
                ev == BlockEvent(C, m, n, IF n.k = "state" THEN "state" ELSE "pred", pos, text, m.store)
                st == m.store
                st1 == IF n.k # "state" THEN st
                       ELSE CASE n.op = "set" -> [st EXCEPT ![n.key] = n.arg]
                              [] n.op = "inc" -> [st EXCEPT ![n.key] = (IF @ < 0 THEN 0 ELSE @) + n.arg]
                              [] n.op = "app" -> [st EXCEPT !.cl = Append(@, n.arg)]
                      [] n.op = "del" -> [st EXCEPT ![n.key] = -1]
                      [] n.op = "nil" -> [st EXCEPT ![n.key] = -2]      \* the key is PRESENT and holds nil (-1: no such key)
                              [] OTHER -> st
                cur == IF n.key = "cl" THEN Len(st.cl) ELSE IF st[n.key] < 0 THEN 0 ELSE st[n.key]
                args == ev.args[2]
                b == CASE n.op = "true" -> TRUE [] n.op = "false" -> FALSE [] n.op = "eq" -> cur = n.arg
                       [] n.op = "glt" -> m.g < n.arg [] n.op = "nil" -> (Len(args) > 0 /\ args[1] = Nil) [] OTHER -> TRUE
                ok == IF n.k = "state" THEN TRUE ELSE IF n.k = "andcode" THEN b ELSE ~b IN
            [mc EXCEPT !.stk = SetTop(m, [f1 EXCEPT !.ph = 9, !.acc = <<[ok |-> ok, val |-> Nil]>>, !.st0 = st1]),
                       !.store = st1, !.g = IF C.asbuilt.acccap > 0 THEN m.g ELSE m.g + n.g, !.log = CapAppend(C, m.log, ev), !.errs = IF C.asbuilt.acccap > 0 THEN m.errs ELSE BlockErr(C, m, n, PosOf(m.pt))]
       [] n.k = "seq" -> Call([mc EXCEPT !.stk = SetTop(m, f1)], [f1 EXCEPT !.i = 1], n.kids[1])
       [] n.k = "choice" -> Call([mc EXCEPT !.vst = PushV(m)], [f1 EXCEPT !.i = 1], n.kids[1])
       [] n.k \in {"star", "plus", "opt", "and", "label"} -> Call([mc EXCEPT !.vst = PushV(m)], f1, n.kids[1])
       [] n.k = "not" -> Call([mc EXCEPT !.vst = PushV(m), !.finv = ~m.finv], f1, n.kids[1])
       [] n.k = "action" -> Call(mc, f1, n.kids[1])
       [] n.k = "ref" -> [mc EXCEPT !.stk = Append(SetTop(m, f1), Frame("rule", n.rule)), !.mode = "eval"]
       [] n.k = "recover" ->      \* pushRecovery(labels, recoverExpr), then the guarded expression
            Call([mc EXCEPT !.rcv = Append(m.rcv, [labs |-> n.labs, rec |-> n.kids[2]])], [f1 EXCEPT !.rd0 = Len(m.rcv)], n.kids[1])
       [] n.k = "throw" ->        \* search the recovery stack from the top for a handler listing the label
            LET hs == {i \in 1..Len(m.rcv) : \E j \in 1..Len(m.rcv[i].labs) : m.rcv[i].labs[j] = n.lab} IN
            IF hs = {} THEN [mc EXCEPT !.stk = SetTop(m, [f1 EXCEPT !.ph = 9, !.acc = <<[ok |-> FALSE, val |-> Nil]>>])]
            ELSE LET i == CHOOSE i \in hs : \A j \in hs : j <= i IN Call(mc, [f1 EXCEPT !.i = i], m.rcv[i].rec)
  ELSE IF f.ph = 9 THEN         \* leave a terminal / code expression: the "<" line
     Leave(C, m, fn, f.acc[1].ok, f.acc[1].val, m.pt, m)
  ELSE
  \* a child (or the called rule) returned
  LET r == m.res IN
  CASE n.k = "seq" ->
         IF r.ok THEN
              IF f.i < Len(n.kids) THEN [Call(m, [f EXCEPT !.i = f.i + 1, !.acc = Append(f.acc, r.val)], n.kids[f.i + 1]) EXCEPT !.lbl = <<"-", "", 0, 0, 0>>]
              ELSE Leave(C, m, fn, TRUE, <<"l", Append(f.acc, r.val)>>, m.pt, m)
         ELSE Leave(C, m, fn, FALSE, Nil, f.pt0, [m EXCEPT !.store = f.st0])           \* restoreState, restore
    [] n.k = "choice" ->
         LET m1 == [m EXCEPT !.vst = PopV(m)] IN
         IF r.ok THEN Leave(C, m, fn, TRUE, r.val, m.pt, m1)
         ELSE LET m2 == [m1 EXCEPT !.store = f.st0] IN                                  \* restoreState
              IF f.i < Len(n.kids) THEN [Call([m2 EXCEPT !.vst = PushV(m2)], [f EXCEPT !.i = f.i + 1], n.kids[f.i + 1]) EXCEPT !.lbl = <<"-", "", 0, 0, 0>>]
              ELSE Leave(C, m, fn, FALSE, Nil, m.pt, m2)
    [] n.k \in {"star", "plus"} ->
         LET m1 == [m EXCEPT !.vst = PopV(m)] IN
         IF r.ok THEN [Call([m1 EXCEPT !.vst = PushV(m1)], [f EXCEPT !.acc = CapAppend(C, f.acc, r.val)], n.kids[1]) EXCEPT !.lbl = <<"-", "", 0, 0, 0>>]
         ELSE IF n.k = "plus" /\ f.acc = <<>> THEN Leave(C, m, fn, FALSE, Nil, m.pt, m1)
         ELSE Leave(C, m, fn, TRUE, <<"l", f.acc>>, m.pt, m1)
    [] n.k = "opt" -> Leave(C, m, fn, TRUE, IF r.ok THEN r.val ELSE Nil, m.pt, [m EXCEPT !.vst = PopV(m)])
    [] n.k = "and" -> Leave(C, m, fn, r.ok, Nil, f.pt0, [m EXCEPT !.vst = PopV(m), !.store = f.st0])
    [] n.k = "not" -> Leave(C, m, fn, ~r.ok, Nil, f.pt0, [m EXCEPT !.vst = PopV(m), !.store = f.st0, !.finv = ~m.finv])
    [] n.k = "label" ->
         LET v1 == PopV(m)
             v2 == IF r.ok THEN [v1 EXCEPT ![Len(v1)] = Append(@, <<n.lab, r.val>>)] ELSE v1 IN
         Leave(C, m, fn, r.ok, r.val, m.pt, [m EXCEPT !.vst = v2])
    [] n.k = "action" ->
         IF ~r.ok THEN Leave(C, m, fn, FALSE, Nil, m.pt, m)
         ELSE LET text == SubSeq(C.inp, f.pt0.off + 1, m.pt.off)
                  pos == PosOf(f.pt0)
                  ev == BlockEvent(C, m, n, "act", pos, text, m.store)
                  val == <<"a", n.blk, <<<<"b", text>>>> \o ev.args[2]>> IN
              Leave(C, m, fn, TRUE, val, m.pt,
                    [m EXCEPT !.curpos = pos, !.curtext = text, !.log = CapAppend(C, m.log, ev), !.g = IF C.asbuilt.acccap > 0 THEN m.g ELSE m.g + n.g,
                              !.errs = IF C.asbuilt.acccap > 0 THEN m.errs ELSE BlockErr(C, m, n, PosOf(f.pt0))])
    [] n.k = "ref" -> Leave(C, m, fn, r.ok, r.val, m.pt, m)
    [] n.k = "recover" -> Leave(C, m, fn, r.ok, r.val, m.pt, [m EXCEPT !.rcv = SubSeq(m.rcv, 1, Len(m.rcv) - 1)])     \* popRecovery
    [] n.k = "throw" ->
         IF r.ok THEN Leave(C, m, fn, TRUE, r.val, m.pt, m)
         ELSE LET hs == {i \in 1..(f.i - 1) : \E j \in 1..Len(m.rcv[i].labs) : m.rcv[i].labs[j] = n.lab} IN
              IF hs = {} THEN Leave(C, m, fn, FALSE, Nil, m.pt, m)
              ELSE LET i == CHOOSE i \in hs : \A j \in hs : j <= i IN
                   [Call(m, [f EXCEPT !.i = i], m.rcv[i].rec) EXCEPT !.lbl = <<"-", "", 0, 0, 0>>]

(* ---- the outcome of a finished run, in the shape of PegRef's RefOutcome ---------------------- *)
MOutcome(C, m) ==
  LET bud == m.ab = "budget"
      perr == IF bud THEN <<[pos |-> PosOf(m.pt), alt |-> PosOf(m.pt), rule |-> RuleName(C, m), msg |-> "max number of expressions parsed"]>> ELSE <<>>
      errs == Dedupe(m.errs \o perr, 1, <<>>)
      ok == m.res.ok /\ ~bud
  IN [ab |-> m.ab, ok |-> ok, end |-> IF ok THEN m.pt.off ELSE 0, val |-> IF ok THEN Enc(m.res.val) ELSE <<>>,
      store |-> IF ok THEN StoreSnap(m.store) ELSE <<>>, g |-> m.g,
      events |-> [i \in 1..Len(m.log) |-> [blk |-> m.log[i].blk, kind |-> m.log[i].kind, pos |-> m.log[i].pos, text |-> m.log[i].text,
                                            args |-> Enc(m.log[i].args), nargs |-> NormEnc(m.log[i].args), store |-> m.log[i].store, g |-> m.log[i].g]],
      errs |-> errs, nomatch |-> (~ok) /\ errs = <<>>, npos |-> LineCol(C.inp, m.fmax), fmax |-> m.fmax,
      nexp |-> {IF w = <<33, 46>> THEN EOFW ELSE w : w \in m.fset}, cnt |-> m.cnt]
=============================================================================
