-------------------------------- MODULE Pool --------------------------------
(***************************************************************************)
(* C18: N parsers of one generated package run at the same time.  The only *)
(* thing they share is statePool (a sync.Pool of storeDict maps) through   *)
(* which the maps of the state store are recycled:                         *)
(*   cloneState   = Get a map (some pooled map, or a new one), copy the    *)
(*                  current store into it key by key, hand it to the frame *)
(*   restoreState = Discard the current map (delete its keys one by one,   *)
(*                  Put it into the pool), adopt the clone                 *)
(*   success      = the frame's clone is dropped (garbage)                 *)
(*   #{} blocks   = write a key of the current map                         *)
(* Each parser executes the sequence of these operations that the parsing  *)
(* machine prescribes for its own case (here: a program over the ops       *)
(* "clone", "write", "restore", "drop").  Every step of every operation    *)
(* is interleaved with every step of the other parsers.  sync.Pool's       *)
(* contract: Get returns SOME pooled object or a fresh one; an object is   *)
(* returned at most once per Put.                                          *)
(*                                                                         *)
(* Properties:                                                             *)
(*   ExclusiveOwnership  no map is referenced by two parsers, or by a      *)
(*                       parser and the pool                               *)
(*   GetIsEmpty          a map handed out by Get is empty                  *)
(*   Isolation           the store a parser sees equals the store of its   *)
(*                       solo run (history variable solo)                  *)
(* AsBuilt switches name deviations that a change to the template could    *)
(* introduce; with a switch on TLC produces the counterexample:            *)
(*   DoublePut   restoreState of the same clone applied twice / the map is *)
(*               Put without being abandoned                               *)
(*   NoClear     Discard does not delete the keys before Put               *)
(***************************************************************************)
EXTENDS Integers, Sequences, FiniteSets, TLC

CONSTANTS NP,          \* number of parsers
          Prog,        \* Prog[p] = sequence of ops: <<"clone">>, <<"write", key, val>>, <<"restore">>, <<"drop">>
          Keys, MaxMaps, DoublePut, NoClear

Parsers == 1..NP
Maps == 1..MaxMaps
Empty == [k \in Keys |-> 0]            \* 0 = key absent

VARIABLES content,    \* content[m] : Keys -> value
          pool,       \* set of pooled map ids
          fresh,      \* next never-used map id
          cur,        \* cur[p]   : the map that is p's current store
          frames,     \* frames[p]: stack of clones held by p's active frames
          pc,         \* pc[p]    : index into Prog[p]
          step,       \* step[p]  : micro state of the current op: <<"idle">>, <<"copy", m, todo>>, <<"clear", todo>>
          solo        \* solo[p]  : [cur, frames] as VALUES (the store p must see), maintained by the same program run alone
vars == <<content, pool, fresh, cur, frames, pc, step, solo>>

Init == /\ content = [m \in Maps |-> Empty]
        /\ pool = {}
        /\ fresh = NP + 1
        /\ cur = [p \in Parsers |-> p]
        /\ frames = [p \in Parsers |-> <<>>]
        /\ pc = [p \in Parsers |-> 1]
        /\ step = [p \in Parsers |-> <<"idle">>]
        /\ solo = [p \in Parsers |-> [cur |-> Empty, frames |-> <<>>]]

Op(p) == Prog[p][pc[p]]
Running(p) == pc[p] <= Len(Prog[p])

(* ---- cloneState ---- *)
GetPooled(p, m) ==      \* Get returns a pooled map
  /\ Running(p) /\ step[p] = <<"idle">> /\ Op(p)[1] = "clone" /\ m \in pool
  /\ pool' = pool \ {m}
  /\ step' = [step EXCEPT ![p] = <<"copy", m, Keys>>]
  /\ UNCHANGED <<content, fresh, cur, frames, pc, solo>>
GetNew(p) ==            \* Get makes a new map
  /\ Running(p) /\ step[p] = <<"idle">> /\ Op(p)[1] = "clone" /\ fresh <= MaxMaps
  /\ fresh' = fresh + 1
  /\ step' = [step EXCEPT ![p] = <<"copy", fresh, Keys>>]
  /\ UNCHANGED <<content, pool, cur, frames, pc, solo>>
CopyKey(p, k) ==
  /\ step[p][1] = "copy" /\ k \in step[p][3]
  /\ content' = [content EXCEPT ![step[p][2]][k] = IF content[cur[p]][k] # 0 THEN content[cur[p]][k] ELSE @]
  /\ step' = [step EXCEPT ![p] = <<"copy", step[p][2], step[p][3] \ {k}>>]
  /\ UNCHANGED <<pool, fresh, cur, frames, pc, solo>>
CloneDone(p) ==
  /\ step[p][1] = "copy" /\ step[p][3] = {}
  /\ frames' = [frames EXCEPT ![p] = Append(@, step[p][2])]
  /\ solo' = [solo EXCEPT ![p].frames = Append(@, solo[p].cur)]
  /\ step' = [step EXCEPT ![p] = <<"idle">>]
  /\ pc' = [pc EXCEPT ![p] = @ + 1]
  /\ UNCHANGED <<content, pool, fresh, cur>>

(* ---- a state block writes the current map ---- *)
Write(p) ==
  /\ Running(p) /\ step[p] = <<"idle">> /\ Op(p)[1] = "write"
  /\ content' = [content EXCEPT ![cur[p]][Op(p)[2]] = Op(p)[3]]
  /\ solo' = [solo EXCEPT ![p].cur[Op(p)[2]] = Op(p)[3]]
  /\ pc' = [pc EXCEPT ![p] = @ + 1]
  /\ UNCHANGED <<pool, fresh, cur, frames, step>>

(* ---- restoreState: Discard (clear, Put) then adopt the frame's clone ---- *)
RestoreStart(p) ==
  /\ Running(p) /\ step[p] = <<"idle">> /\ Op(p)[1] = "restore" /\ frames[p] # <<>>
  /\ step' = [step EXCEPT ![p] = <<"clear", IF NoClear THEN {} ELSE Keys>>]
  /\ UNCHANGED <<content, pool, fresh, cur, frames, pc, solo>>
ClearKey(p, k) ==
  /\ step[p][1] = "clear" /\ k \in step[p][2]
  /\ content' = [content EXCEPT ![cur[p]][k] = 0]
  /\ step' = [step EXCEPT ![p] = <<"clear", step[p][2] \ {k}>>]
  /\ UNCHANGED <<pool, fresh, cur, frames, pc, solo>>
PutAndAdopt(p) ==
  /\ step[p][1] = "clear" /\ step[p][2] = {}
  /\ LET top == frames[p][Len(frames[p])] IN
     /\ pool' = pool \cup {cur[p]} \cup (IF DoublePut THEN {top} ELSE {})
     /\ cur' = [cur EXCEPT ![p] = top]
  /\ frames' = [frames EXCEPT ![p] = SubSeq(@, 1, Len(@) - 1)]
  /\ solo' = [solo EXCEPT ![p].cur = solo[p].frames[Len(solo[p].frames)], ![p].frames = SubSeq(@, 1, Len(@) - 1)]
  /\ step' = [step EXCEPT ![p] = <<"idle">>]
  /\ pc' = [pc EXCEPT ![p] = @ + 1]
  /\ UNCHANGED <<content, fresh>>

(* ---- success path: the clone is dropped ---- *)
Drop(p) ==
  /\ Running(p) /\ step[p] = <<"idle">> /\ Op(p)[1] = "drop" /\ frames[p] # <<>>
  /\ frames' = [frames EXCEPT ![p] = SubSeq(@, 1, Len(@) - 1)]
  /\ solo' = [solo EXCEPT ![p].frames = SubSeq(@, 1, Len(@) - 1)]
  /\ pc' = [pc EXCEPT ![p] = @ + 1]
  /\ UNCHANGED <<content, pool, fresh, cur, step>>

Done == \A p \in Parsers : ~Running(p)
Next == \/ \E p \in Parsers : \/ GetNew(p) \/ CloneDone(p) \/ Write(p) \/ RestoreStart(p) \/ PutAndAdopt(p) \/ Drop(p)
                              \/ \E m \in Maps : GetPooled(p, m)
                              \/ \E k \in Keys : CopyKey(p, k) \/ ClearKey(p, k)
        \/ (Done /\ UNCHANGED vars)
Spec == Init /\ [][Next]_vars /\ WF_vars(Next)

(* ---- properties ---- *)
Held(p) == {cur[p]} \cup {frames[p][i] : i \in 1..Len(frames[p])}
              \cup (IF step[p][1] = "copy" THEN {step[p][2]} ELSE {})
ExclusiveOwnership ==
  /\ \A p, q \in Parsers : p # q => Held(p) \cap Held(q) = {}
  /\ \A p \in Parsers : Held(p) \cap pool = {}
GetIsEmpty == \A m \in pool : content[m] = Empty
(* whenever a parser is between operations, the store it sees is the store of its solo run *)
Isolation == \A p \in Parsers : step[p] = <<"idle">> =>
               /\ content[cur[p]] = solo[p].cur
               /\ \A i \in 1..Len(frames[p]) : content[frames[p][i]] = solo[p].frames[i]
Termination == <>Done
=============================================================================
