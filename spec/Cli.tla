--------------------------------- MODULE Cli ---------------------------------
(***************************************************************************)
(* C13: the pigeon command as a machine of phases                          *)
(*   Args -> Open -> Parse -> CheckEntrypoints -> [Optimize] -> Build      *)
(*        -> Format -> Write -> Done                                       *)
(* Each phase either passes control on or leaves through its own exit      *)
(* action with the exit status and the class of diagnostic that belongs to *)
(* it (main.go).  The specification is small; its substance is the set of  *)
(* allowed terminal observations:                                          *)
(*   - exit 0 with a complete Go file (or the usage page for -h, or no     *)
(*     output for -x) and nothing on stderr;                               *)
(*   - a non-zero exit status with the diagnostic of the phase;            *)
(*   - never a Go panic trace, never a hang, never a diagnostic together   *)
(*     with exit status 0.                                                 *)
(* TLC (i) explores the machine and checks that every terminal state is    *)
(* one of the allowed observations (Safe), and (ii) validates every        *)
(* observation recorded from the real command: it must be a terminal state *)
(* that the machine can reach under the run's flags (Reachable).           *)
(***************************************************************************)
EXTENDS Integers, Sequences, FiniteSets, TLC, Json

Obs == ndJsonDeserialize("cliobs.ndjson")   \* [k, rc, diag, out, panic, timeout, h, x, o, nargs, norecover]

Phases == <<"args", "open", "parse", "entry", "optimize", "build", "format", "write", "done">>

(* the exits of each phase: <<status, diagnostic class, what is on the output>> *)
Exits(ph, f) ==
  CASE ph = "args"   -> {<<2, "flag", "usage">>, <<2, "flag", "none">>} \cup (IF f.nargs > 1 THEN {<<1, "narg", "usage">>} ELSE {})
                        \cup (IF f.h THEN {<<0, "none", "usage">>} ELSE {})
    [] ph = "open"   -> {<<2, "open", "none">>}
    [] ph = "parse"  -> {<<3, "parse", "none">>}
    [] ph = "entry"  -> {<<9, "arg", "none">>} \cup (IF f.x THEN {<<0, "none", "none">>} ELSE {})
    [] ph = "optimize" -> {}
    [] ph = "build"  -> {<<5, "build", "none">>, <<4, "open", "none">>}
    [] ph = "format" -> {<<6, "format", "raw">>}
    [] ph = "write"  -> {<<7, "write", "none">>, <<8, "close", "none">>}
    [] ph = "done"   -> {<<0, "none", "gofile">>}

(* a phase is passed only if its mandatory exit does not apply *)
MustExit(ph, f) == (ph = "args" /\ (f.h \/ f.nargs > 1)) \/ (ph = "entry" /\ f.x)

RECURSIVE Terminals(_,_)
Terminals(i, f) ==
  IF i > Len(Phases) THEN {}
  ELSE Exits(Phases[i], f) \cup (IF MustExit(Phases[i], f) THEN {} ELSE Terminals(i+1, f))
Reachable(f) == Terminals(1, f)

(* the property: what a terminal observation may look like *)
Allowed(t) == \/ (t[1] = 0 /\ t[2] = "none" /\ t[3] \in {"gofile", "usage", "none"})
              \/ (t[1] # 0 /\ t[2] # "none" /\ t[2] # "panic")
Safe == \A h, x \in BOOLEAN : \A n \in 0..2 : \A t \in Reachable([h |-> h, x |-> x, nargs |-> n]) : Allowed(t)

Verdict(o) ==
  LET f == [h |-> o.h, x |-> o.x, nargs |-> o.nargs]
      t == <<o.rc, o.diag, o.out>> IN
  IF o.timeout THEN <<"hang", 0>>
  ELSE IF o.panic THEN (IF o.norecover THEN <<"same", 0>>      \* -no-recover: "do not recover from a panic ... to access the panic stack"
                        ELSE <<"go-panic-trace", o.rc>>)
  ELSE IF o.rc = 0 /\ o.diag # "none" THEN <<"rejected-with-exit-0", 0>>
  ELSE IF ~Allowed(t) THEN <<"not-allowed", o.rc>>
  ELSE IF t \notin Reachable(f) THEN <<"not-reachable", o.rc>>
  ELSE <<"same", 0>>

VARIABLES k, bad
vars == <<k, bad>>
Init == k = 1 /\ bad = 0
Next == /\ k <= Len(Obs)
        /\ LET o == Obs[k]  df == Verdict(o) IN
           IF df[1] = "same" THEN bad' = bad
           ELSE /\ bad' = bad + 1
                /\ PrintT("DIVERGE " \o ToJson([k |-> o.k, vi |-> 0, gi |-> 0, ii |-> 0, oi |-> 0, df |-> df[1], at |-> df[2], haz |-> <<>>]))
        /\ k' = k + 1
Spec == Init /\ [][Next]_vars
Accepted == /\ Safe
            /\ (k > Len(Obs)) => PrintT("DONE " \o ToJson([n |-> Len(Obs), bad |-> bad]))
=============================================================================
