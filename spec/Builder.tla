------------------------------- MODULE Builder -------------------------------
(***************************************************************************)
(* C04: the code-generation side of a grammar: which methods the builder   *)
(* emits for the code blocks and which parameters each receives.           *)
(*  - every expression of a rule gets an index in pre-order (exprIndex is  *)
(*    reset per rule and incremented by writeExpr); a block's method is    *)
(*    "on" <rule identifier> <index>;                                      *)
(*  - a block receives exactly the labels of its scope (field args of the  *)
(*    node, computed by the harness from the documentation's scoping rule  *)
(*    and cross-checked against the runtime by C02).                       *)
(* Properties: OneMethodPerBlock, ArgsAreScope (checked against the method *)
(* set extracted from the real generated file), NamesInjective (distinct   *)
(* blocks must have distinct method names, otherwise the file cannot       *)
(* compile: known finding F13 is exactly a violation of this invariant).   *)
(***************************************************************************)
EXTENDS Integers, Sequences, FiniteSets, TLC, Json

Groups == ndJsonDeserialize("groups.ndjson")
Obs    == ndJsonDeserialize("methods.ndjson")    \* [gi, methods: [[name, params]]]

RECURSIVE Index(_,_,_), IndexKids(_,_,_,_)
(* <<set of <<node, index>>, next free index>> *)
Index(G, e, next) ==
  LET r == IndexKids(G, G.nodes[e].kids, 1, next + 1) IN <<r[1] \cup {<<e, next>>}, r[2]>>
IndexKids(G, kids, i, next) ==
  IF i > Len(kids) THEN <<{}, next>>
  ELSE LET a == Index(G, kids[i], next)  b == IndexKids(G, kids, i+1, a[2]) IN <<a[1] \cup b[1], b[2]>>

Methods(G) ==
  UNION {LET ix == Index(G, G.rules[ri], 1)[1] IN
         {[name |-> "on" \o G.idents[ri] \o ToString(p[2]), params |-> G.nodes[p[1]].args] : p \in {q \in ix : G.nodes[q[1]].blk # 0}}
         : ri \in 1..Len(G.rules)}
(* the code blocks that are part of some rule (a node table may contain unreachable nodes) *)
NBlocks(G) == Cardinality(UNION {LET ix == Index(G, G.rules[ri], 1)[1] IN {<<ri, q[1]>> : q \in {p \in ix : G.nodes[p[1]].blk # 0}}
                                 : ri \in 1..Len(G.rules)})
NamesInjective(G) == Cardinality({m.name : m \in Methods(G)}) = NBlocks(G)

(* The property fixes how many methods there are and which labels each receives, not how they are called: the     *)
(* observed methods are compared with the predicted ones as a BAG of parameter lists (the names only have to be   *)
(* distinct, which the extraction guarantees); the naming scheme of the code as built matters only for F13.       *)
ObsParams(o) == {o.methods[i][2] : i \in 1..Len(o.methods)}
ObsCount(o, ps) == Cardinality({i \in 1..Len(o.methods) : o.methods[i][2] = ps})
ExpCount(G, ps) == Cardinality({m \in Methods(G) : m.params = ps})
Verdict(o) ==
  LET G == Groups[o.gi] IN
  IF ~NamesInjective(G) THEN <<"names-clash", 0>>               \* the emitted file cannot compile (F13)
  ELSE IF Len(o.methods) # NBlocks(G) THEN <<"method-count", Len(o.methods)>>
  ELSE IF \E ps \in ObsParams(o) \cup {m.params : m \in Methods(G)} : ObsCount(o, ps) # ExpCount(G, ps) THEN <<"method-params", 0>>
  ELSE <<"same", 0>>

VARIABLES k, bad
vars == <<k, bad>>
Init == k = 1 /\ bad = 0
Next == /\ k <= Len(Obs)
        /\ LET o == Obs[k]  df == Verdict(o) IN
           IF df[1] = "same" THEN bad' = bad
           ELSE /\ bad' = bad + 1
                /\ PrintT("DIVERGE " \o ToJson([k |-> k, vi |-> o.vi, gi |-> o.gi, ii |-> 1, oi |-> 1, df |-> df[1], at |-> df[2], haz |-> <<>>]))
        /\ k' = k + 1
Spec == Init /\ [][Next]_vars
Accepted == (k > Len(Obs)) => PrintT("DONE " \o ToJson([n |-> Len(Obs), bad |-> bad]))
=============================================================================
