------------------------------- MODULE PegRef -------------------------------
(***************************************************************************)
(* Layer R: the MEANING of a pigeon grammar on an input, as a big-step,    *)
(* evaluation-order-aware definition.  It contains nothing of pigeon's     *)
(* implementation (no memo table, no savepoints, no clone/restore, no      *)
(* vstack slices, no expression budget counter): a result, a position, a   *)
(* label scope, a state store, a global store, a handler stack, and four   *)
(* append-only logs (code-block events, errors, farthest-failure data,     *)
(* evaluation count) are threaded through the evaluation of the abstract   *)
(* grammar.  Each clause is a sentence of doc.go / of the property         *)
(* statements C01,C02,C05,C08,C11,C12,C14,C16,C17.                         *)
(*                                                                         *)
(* Data model (shared with the Go/Python harness, cases are JSON):         *)
(*  group G  = [nodes : Seq(Node), rules : Seq(node id), names : Seq(STR), *)
(*              lr : Seq(Nat)]   (lr[i] = k > 0: rule i has the form       *)
(*              A <- rec_1/../rec_k/base_1/.. of C08, 0 otherwise)         *)
(*  Node     = uniform record, see the field list in lib/peg.py            *)
(*  input    = Seq(0..255)   (bytes)                                       *)
(*  opt      = [allowinv, maxexpr, errblks, panicblk, ...]                 *)
(*  value    = <<"n">> | <<"b", bytes>> | <<"l", Seq(value)>>              *)
(*             | <<"a", blk, Seq(value)>>                                  *)
(***************************************************************************)
EXTENDS Integers, Sequences, FiniteSets, TLC

Nil == <<"n">>
RuneError == 65533

(*************************** UTF-8 decoding (C17) **************************)
(* Go's utf8.DecodeRune transcribed from the Unicode standard's table of   *)
(* well-formed byte sequences: <<rune, width>>; every ill-formed prefix is *)
(* <<RuneError, 1>>; end of input is <<RuneError, 0>>.                     *)
Byte(inp, i) == IF i <= Len(inp) THEN inp[i] ELSE -1      \* i is 1-based
IsCont(b) == b >= 128 /\ b <= 191
Decode(inp, off) ==
  LET b0 == Byte(inp, off+1)  b1 == Byte(inp, off+2)
      b2 == Byte(inp, off+3)  b3 == Byte(inp, off+4) IN
  IF b0 = -1 THEN <<RuneError, 0>>
  ELSE IF b0 < 128 THEN <<b0, 1>>
  ELSE IF b0 >= 194 /\ b0 <= 223 THEN
       IF IsCont(b1) THEN <<(b0 - 192) * 64 + (b1 - 128), 2>> ELSE <<RuneError, 1>>
  ELSE IF b0 >= 224 /\ b0 <= 239 THEN
       LET lo == IF b0 = 224 THEN 160 ELSE 128
           hi == IF b0 = 237 THEN 159 ELSE 191 IN
       IF b1 >= lo /\ b1 <= hi /\ IsCont(b2)
       THEN <<(b0 - 224) * 4096 + (b1 - 128) * 64 + (b2 - 128), 3>> ELSE <<RuneError, 1>>
  ELSE IF b0 >= 240 /\ b0 <= 244 THEN
       LET lo == IF b0 = 240 THEN 144 ELSE 128
           hi == IF b0 = 244 THEN 143 ELSE 191 IN
       IF b1 >= lo /\ b1 <= hi /\ IsCont(b2) /\ IsCont(b3)
       THEN <<(b0 - 240) * 262144 + (b1 - 128) * 4096 + (b2 - 128) * 64 + (b3 - 128), 4>>
       ELSE <<RuneError, 1>>
  ELSE <<RuneError, 1>>
Invalid(inp, off) == Decode(inp, off) = <<RuneError, 1>>

(************************** positions (C02) ********************************)
(* The position of byte offset off: line = 1 + number of newlines among    *)
(* the runes at offsets <= off, col = number of runes after the last such  *)
(* newline up to and including the rune at off (the end-of-input pseudo    *)
(* rune counts as a rune).  A pure function of (input, offset).            *)
RECURSIVE Walk(_,_,_,_,_)
Walk(inp, o, line, col, off) ==
  LET d == Decode(inp, o)
      l1 == IF d[1] = 10 THEN line + 1 ELSE line
      c1 == IF d[1] = 10 THEN 0 ELSE col + 1 IN
  IF o >= off \/ d[2] = 0 THEN <<l1, c1, o>> ELSE Walk(inp, o + d[2], l1, c1, off)
LineCol(inp, off) == Walk(inp, 0, 1, 0, off)

(************************** case folding ***********************************)
(* Lower is Go's unicode.ToLower restricted to the model alphabet: ASCII   *)
(* plus the pairs exported by the harness from Go's unicode package.       *)
LowerOf(tab, r) == IF r >= 65 /\ r <= 90 THEN r + 32
                   ELSE IF \E i \in 1..Len(tab) : tab[i][1] = r
                        THEN (CHOOSE p \in {tab[i] : i \in 1..Len(tab)} : p[1] = r)[2]
                        ELSE r

(* the case forms of r (unicode.SimpleFold orbit): a row of the table is <<r, lower, other forms...>>; without a   *)
(* row an ASCII letter has its two forms and any other rune only itself                                          *)
Orbit(tab, r) == IF \E i \in 1..Len(tab) : tab[i][1] = r
                 THEN LET row == CHOOSE p \in {tab[i] : i \in 1..Len(tab)} : p[1] = r IN {row[j] : j \in 1..Len(row)}
                 ELSE IF r >= 65 /\ r <= 90 THEN {r, r + 32} ELSE IF r >= 97 /\ r <= 122 THEN {r, r - 32} ELSE {r}
SeqHas(sq, x) == \E j \in 1..Len(sq) : sq[j] = x

(************************** threaded context *******************************)
Store0 == [x |-> -1, y |-> -1, cl |-> <<>>]
X0 == [pos |-> 0, env |-> <<>>, store |-> Store0, g |-> 0, log |-> <<>>, errs |-> <<>>,
       fmax |-> 0, fset |-> {}, fany |-> FALSE, hs |-> <<>>, seeds |-> <<>>, done |-> {},
       ab |-> "none", abinfo |-> <<>>, cnt |-> 0, haz |-> {}, mseen |-> {}, active |-> {}, rseen |-> {},
       ch |-> <<>>]     \* the choice statistics (Statistics option): one entry <<rule, choice, alternative or 0>> per evaluated choice
Res(ok, val, x) == [ok |-> ok, val |-> val, x |-> x]
Ab(x) == x.ab # "none"
\* restore what backtracking restores, keep what survives failure
Back(x, x0) == [x EXCEPT !.pos = x0.pos, !.env = x0.env, !.store = x0.store]
StoreSnap(st) == <<st.x, st.y, Len(st.cl)>> \o st.cl

RECURSIVE Lookup(_,_,_)
Lookup(env, lab, i) == IF i = 0 THEN Nil ELSE IF env[i][1] = lab THEN env[i][2] ELSE Lookup(env, lab, i-1)

(* farthest-failure bookkeeping (C12): a terminal that fails outside an    *)
(* odd number of negations, or matches inside one, is recorded at its      *)
(* start offset.                                                           *)
FailEv(x, off, w, inv, matched) ==
  IF matched # inv THEN x
  ELSE IF off < x.fmax THEN x
  ELSE LET ww == IF inv THEN <<33>> \o w ELSE w IN
       IF off > x.fmax THEN [x EXCEPT !.fmax = off, !.fset = {ww}, !.fany = TRUE]
       ELSE [x EXCEPT !.fset = @ \cup {ww}, !.fany = TRUE]

BlkMsg(C, n) == IF C.opt.samemsg THEN "same" ELSE "e" \o ToString(n.blk)      \* the text of a code block's error
ErrRec(C, pos, alt, rn, msg) == [pos |-> LineCol(C.inp, pos), alt |-> LineCol(C.inp, alt), rule |-> rn, msg |-> msg]
AddErr(C, x, pos, rn, msg) == [x EXCEPT !.errs = Append(@, ErrRec(C, pos, pos, rn, msg))]
(* advancing onto offset o: an ill-formed byte there is reported (C17) *)
Advance(C, x, o, rn) ==
  IF ~C.opt.allowinv /\ Invalid(C.inp, o) THEN AddErr(C, [x EXCEPT !.pos = o], o, rn, "invalid encoding")
  ELSE [x EXCEPT !.pos = o]

BlockErrs(C, n) == n.err \/ n.blk \in C.errblks

(* character class membership: the meaning of [..] with ^ and i            *)
InClass(C, n, r) ==
  LET rr == IF n.ic THEN LowerOf(C.lower, r) ELSE r
      mem(m) == IF n.ic THEN LowerOf(C.lower, m) ELSE m IN
  \/ \E i \in 1..Len(n.s) : mem(n.s[i]) = rr
  \/ \E i \in 1..(Len(n.rng) \div 2) : mem(n.rng[2*i-1]) <= rr /\ rr <= mem(n.rng[2*i])
  \* a Unicode class has no lower-cased spelling: case-insensitively a rune is a member when one of its case forms is
  \/ \E i \in 1..Len(n.ucl) : IF n.ic THEN \E f \in Orbit(C.lower, r) : SeqHas(C.uclass[n.ucl[i]], f)
                                ELSE SeqHas(C.uclass[n.ucl[i]], r)

(* an iteration that succeeded without consuming and without changing any  *)
(* store repeats identically for ever (64 iterations without consuming are *)
(* taken as for ever when the stores keep changing)                        *)
Stuck(x1, x, acc) == x1.pos = x.pos /\ ((x1.store = x.store /\ x1.g = x.g) \/ Len(acc) >= 64)

RECURSIVE Ev(_,_,_,_,_), EvSeq(_,_,_,_,_,_,_,_), EvCh(_,_,_,_,_,_,_,_), EvRep(_,_,_,_,_,_,_),
          EvLit(_,_,_,_,_,_,_), EvRule(_,_,_,_), EvLR(_,_,_,_), Grow(_,_,_,_,_,_), EvThrow(_,_,_,_,_,_)

(* C = the case: [G, inp, opt, errblks, lower, uclass]; e = node id;      *)
(* x = context; inv = inside an odd number of "!"; rn = current rule name  *)
Ev(C, e, x0, inv, rn) ==
  IF Ab(x0) THEN Res(FALSE, Nil, x0) ELSE
  LET n == C.G.nodes[e]
      \* hazard bookkeeping for known finding F2 only: a label-exporting node evaluated twice at one offset
      x == IF n.xl THEN [x0 EXCEPT !.cnt = @ + 1, !.mseen = @ \cup {<<e, x0.pos>>},
                                   !.haz = IF <<e, x0.pos>> \in x0.mseen THEN @ \cup {"memolabel"} ELSE @]
           ELSE [x0 EXCEPT !.cnt = @ + 1]
      pos == x.pos
      d == Decode(C.inp, pos) IN
  IF C.opt.maxexpr > 0 /\ x.cnt > C.opt.maxexpr THEN Res(FALSE, Nil, [x EXCEPT !.ab = "budget", !.abinfo = <<pos, rn>>]) ELSE
  CASE n.k = "lit" -> EvLit(C, n, 1, x, inv, rn, pos)
    [] n.k = "any" ->
         LET m == d[2] > 0  x1 == FailEv(x, pos, n.want, inv, m) IN
         IF m THEN Res(TRUE, <<"b", SubSeq(C.inp, pos+1, pos+d[2])>>, Advance(C, x1, pos+d[2], rn))
         ELSE Res(FALSE, Nil, x1)
    [] n.k = "cls" ->
         LET m == d[2] > 0 /\ (InClass(C, n, d[1]) # n.inv)
             x1 == FailEv(x, pos, n.want, inv, m) IN
         IF m THEN Res(TRUE, <<"b", SubSeq(C.inp, pos+1, pos+d[2])>>, Advance(C, x1, pos+d[2], rn))
         ELSE Res(FALSE, Nil, x1)
    [] n.k = "seq" -> EvSeq(C, n.kids, 1, x, inv, rn, <<>>, x)
    [] n.k = "choice" -> EvCh(C, e, n.kids, 1, x, inv, rn, x)
    [] n.k = "star" -> EvRep(C, n.kids[1], x, inv, rn, <<>>, x.env)
    [] n.k = "plus" ->
         LET r == Ev(C, n.kids[1], [x EXCEPT !.env = <<>>], inv, rn) IN
         IF Ab(r.x) THEN r
         ELSE IF r.ok THEN
              IF Stuck(r.x, x, <<>>) THEN Res(FALSE, Nil, [r.x EXCEPT !.ab = "div"])   \* iterates without consuming
              ELSE EvRep(C, n.kids[1], r.x, inv, rn, <<r.val>>, x.env)
         ELSE Res(FALSE, Nil, Back(r.x, x))
    [] n.k = "opt" ->
         LET r == Ev(C, n.kids[1], [x EXCEPT !.env = <<>>], inv, rn) IN
         IF Ab(r.x) THEN r
         ELSE IF r.ok THEN Res(TRUE, r.val, [r.x EXCEPT !.env = x.env])
         ELSE Res(TRUE, Nil, Back(r.x, x))
    [] n.k = "and" ->
         LET r == Ev(C, n.kids[1], [x EXCEPT !.env = <<>>], inv, rn) IN
         IF Ab(r.x) THEN r ELSE Res(r.ok, Nil, Back(r.x, x))
    [] n.k = "not" ->
         LET r == Ev(C, n.kids[1], [x EXCEPT !.env = <<>>], ~inv, rn) IN
         IF Ab(r.x) THEN r ELSE Res(~r.ok, Nil, Back(r.x, x))
    [] n.k = "label" ->
         LET r == Ev(C, n.kids[1], [x EXCEPT !.env = <<>>], inv, rn) IN
         IF Ab(r.x) THEN r
         ELSE IF r.ok THEN Res(TRUE, r.val, [r.x EXCEPT !.env = Append(x.env, <<n.lab, r.val>>)])
         ELSE Res(FALSE, Nil, Back(r.x, x))
    [] n.k = "action" ->
         LET r == Ev(C, n.kids[1], x, inv, rn) IN
         IF Ab(r.x) \/ ~r.ok THEN r ELSE
         LET text == SubSeq(C.inp, pos+1, r.x.pos)
             args == [i \in 1..Len(n.args) |-> Lookup(r.x.env, n.args[i], Len(r.x.env))]
             ev   == [blk |-> n.blk, kind |-> "act", pos |-> LineCol(C.inp, pos), text |-> text,
                      args |-> <<"l", args>>, store |-> StoreSnap(r.x.store), g |-> r.x.g]
             x1   == [r.x EXCEPT !.log = Append(@, ev), !.g = @ + n.g]      \* the block's own store writes are dropped
         IN IF n.blk = C.opt.panicblk
            THEN Res(FALSE, Nil, [x1 EXCEPT !.ab = "panic", !.abinfo = <<r.x.pos, pos, rn, n.blk>>])
            ELSE Res(TRUE, <<"a", n.blk, <<<<"b", text>>>> \o args>>,
                     IF BlockErrs(C, n) THEN AddErr(C, x1, pos, rn, BlkMsg(C, n)) ELSE x1)
    [] n.k = "state" ->
         LET args == [i \in 1..Len(n.args) |-> Lookup(x.env, n.args[i], Len(x.env))]
             ev == [blk |-> n.blk, kind |-> "state", pos |-> LineCol(C.inp, pos), text |-> <<>>,
                    args |-> <<"l", args>>, store |-> StoreSnap(x.store), g |-> x.g]
             st == x.store
             st1 == CASE n.op = "set" -> [st EXCEPT ![n.key] = n.arg]
                      [] n.op = "inc" -> [st EXCEPT ![n.key] = (IF @ < 0 THEN 0 ELSE @) + n.arg]
                      [] n.op = "app" -> [st EXCEPT !.cl = Append(@, n.arg)]
                      [] n.op = "del" -> [st EXCEPT ![n.key] = -1]
                      [] n.op = "nil" -> [st EXCEPT ![n.key] = -2]      \* the key is PRESENT and holds nil (-1: no such key)
                      [] OTHER -> st
             x1 == [x EXCEPT !.log = Append(@, ev), !.store = st1, !.g = @ + n.g]
         IN IF n.blk = C.opt.panicblk
            THEN Res(FALSE, Nil, [x1 EXCEPT !.ab = "panic", !.abinfo = <<pos, pos, rn, n.blk>>])
            ELSE Res(TRUE, Nil, IF BlockErrs(C, n) THEN AddErr(C, x1, pos, rn, BlkMsg(C, n)) ELSE x1)
    [] n.k \in {"andcode", "notcode"} ->
         LET args == [i \in 1..Len(n.args) |-> Lookup(x.env, n.args[i], Len(x.env))]
             ev == [blk |-> n.blk, kind |-> "pred", pos |-> LineCol(C.inp, pos), text |-> <<>>,
                    args |-> <<"l", args>>, store |-> StoreSnap(x.store), g |-> x.g]
             cur == IF n.key = "cl" THEN Len(x.store.cl) ELSE IF x.store[n.key] < 0 THEN 0 ELSE x.store[n.key]
             b == CASE n.op = "true" -> TRUE [] n.op = "false" -> FALSE
                    [] n.op = "eq" -> cur = n.arg
                    [] n.op = "glt" -> x.g < n.arg
                    [] n.op = "nil" -> (Len(args) > 0 /\ args[1] = Nil)
                    [] OTHER -> TRUE
             x1 == [x EXCEPT !.log = Append(@, ev), !.g = @ + n.g]
         IN IF n.blk = C.opt.panicblk
            THEN Res(FALSE, Nil, [x1 EXCEPT !.ab = "panic", !.abinfo = <<pos, pos, rn, n.blk>>])
            ELSE Res(IF n.k = "andcode" THEN b ELSE ~b, Nil,
                     IF BlockErrs(C, n) THEN AddErr(C, x1, pos, rn, BlkMsg(C, n)) ELSE x1)
    [] n.k = "ref" ->
         LET r == EvRule(C, n.rule, [x EXCEPT !.env = <<>>], inv) IN
         IF Ab(r.x) THEN r ELSE Res(r.ok, r.val, [r.x EXCEPT !.env = x.env])
    [] n.k = "recover" ->        \* e //{labels} rec : handler in force only while e is evaluated (C14)
         LET r == Ev(C, n.kids[1], [x EXCEPT !.hs = Append(@, [labs |-> n.labs, rec |-> n.kids[2]])], inv, rn) IN
         IF Ab(r.x) THEN r ELSE Res(r.ok, r.val, [r.x EXCEPT !.hs = x.hs])
    [] n.k = "throw" -> EvThrow(C, n.lab, Len(x.hs), x, inv, rn)

(* a throw runs the recovery expression of the innermost handler listing   *)
(* its label at the throw position (the handler stack is unchanged while   *)
(* it runs); if that fails the next enclosing one is tried; otherwise the  *)
(* throw fails like a mismatch.                                            *)
EvThrow(C, lab, i, x, inv, rn) ==
  IF i = 0 THEN Res(FALSE, Nil, x)
  ELSE IF \E j \in 1..Len(x.hs[i].labs) : x.hs[i].labs[j] = lab THEN
       LET r == Ev(C, x.hs[i].rec, x, inv, rn) IN
       IF Ab(r.x) \/ r.ok THEN r ELSE EvThrow(C, lab, i-1, r.x, inv, rn)
  ELSE EvThrow(C, lab, i-1, x, inv, rn)

(* a literal is matched rune by rune; runes already advanced onto are      *)
(* reported if ill-formed even when the literal later mismatches           *)
EvLit(C, n, i, x, inv, rn, start) ==
  IF i > Len(n.s) THEN
     Res(TRUE, <<"b", SubSeq(C.inp, start+1, x.pos)>>, FailEv(x, start, n.want, inv, TRUE))
  ELSE LET d == Decode(C.inp, x.pos)
           cur == IF n.ic THEN LowerOf(C.lower, d[1]) ELSE d[1]
           want == IF n.ic THEN LowerOf(C.lower, n.s[i]) ELSE n.s[i] IN
       IF cur = want /\ d[2] > 0                       \* nothing matches at the end of input
       THEN EvLit(C, n, i+1, Advance(C, x, x.pos + d[2], rn), inv, rn, start)
       ELSE Res(FALSE, Nil, [FailEv(x, start, n.want, inv, FALSE) EXCEPT !.pos = start])

EvSeq(C, kids, i, x, inv, rn, acc, x0) ==
  IF i > Len(kids) THEN Res(TRUE, <<"l", acc>>, x)
  ELSE LET r == Ev(C, kids[i], x, inv, rn) IN
       IF Ab(r.x) THEN r
       ELSE IF r.ok THEN EvSeq(C, kids, i+1, r.x, inv, rn, Append(acc, r.val), x0)
       ELSE Res(FALSE, Nil, Back(r.x, x0))
(* "ChoiceAltCnt ... count for each ordered choice expression which alternative is used how many times ... If an    *)
(* ordered choice does not match, a special counter is incremented": x.ch logs <<current rule, choice, alternative>>   *)
(* (0 = no match); like the other logs it survives backtracking.                                                      *)
EvCh(C, e, kids, i, x, inv, rn, x0) ==
  IF i > Len(kids) THEN Res(FALSE, Nil, [x EXCEPT !.ch = Append(@, <<rn, e, 0>>)])
  ELSE LET r == Ev(C, kids[i], [x EXCEPT !.env = <<>>], inv, rn) IN
       IF Ab(r.x) THEN r
       ELSE IF r.ok THEN Res(TRUE, r.val, [r.x EXCEPT !.env = x0.env, !.ch = Append(@, <<rn, e, i>>)])
       ELSE EvCh(C, e, kids, i+1, Back(r.x, x0), inv, rn, x0)
(* greedy repetition; an iteration that succeeds without consuming would   *)
(* repeat for ever: the evaluation DIVERGES (third outcome, C16)           *)
EvRep(C, kid, x, inv, rn, acc, env0) ==
  LET r == Ev(C, kid, [x EXCEPT !.env = <<>>], inv, rn) IN
  IF Ab(r.x) THEN r
  ELSE IF r.ok THEN
       IF Stuck(r.x, x, acc) THEN Res(FALSE, Nil, [r.x EXCEPT !.ab = "div"])
       ELSE EvRep(C, kid, r.x, inv, rn, Append(acc, r.val), env0)
  ELSE Res(TRUE, <<"l", acc>>, [Back(r.x, x) EXCEPT !.env = env0])

(* rules; a rule of the left-recursive form of C08 has its iterative meaning *)
SeedIx(x, ri, pos) ==
  LET S == {i \in 1..Len(x.seeds) : x.seeds[i].rule = ri /\ x.seeds[i].pos = pos} IN
  IF S = {} THEN 0 ELSE CHOOSE i \in S : \A j \in S : j <= i
(* A rule entered again at an offset at which it is already being evaluated would recurse for ever   *)
(* (left recursion, C07): the evaluation is abandoned with outcome "reentry".                        *)
EvRule(C, ri, x, inv) ==
  IF C.G.lr[ri] = 0 THEN
       IF <<ri, x.pos>> \in x.active THEN Res(FALSE, Nil, [x EXCEPT !.ab = "reentry", !.abinfo = <<ri, x.pos>>])
       ELSE \* hazard bookkeeping for known finding F21 only: a rule evaluated twice at one offset (a memo hit in the real parser)
            LET x1 == [x EXCEPT !.active = @ \cup {<<ri, x.pos>>}, !.rseen = @ \cup {<<ri, x.pos>>},
                                !.haz = IF <<ri, x.pos>> \in x.rseen THEN @ \cup {"rulerepeat"} ELSE @]
                r == Ev(C, C.G.rules[ri], x1, inv, C.G.names[ri])
            IN [r EXCEPT !.x.active = x.active]
  ELSE LET si == SeedIx(x, ri, x.pos) IN
       IF si > 0 THEN                        \* the recursive reference: the result so far
          LET s == x.seeds[si] IN
          IF s.ok THEN Res(TRUE, s.val, [x EXCEPT !.pos = s.end]) ELSE Res(FALSE, Nil, x)
       ELSE EvLR(C, ri, x, inv)

(* The iterative meaning of a rule  A <- A a1 / .. / A an / b1 / .. / bm  (C08), also when the recursion passes  *)
(* through one other rule: the base is what the rule matches when its own recursive reference fails, and each    *)
(* growth step evaluates the rule once more with the recursive reference bound to the result so far; the value   *)
(* is left-nested.  The final attempt that does not extend the match leaves no errors and no state changes.      *)
EvLR(C, ri, x, inv) ==
  LET rn   == C.G.names[ri]
      hz   == IF <<ri, x.pos>> \in x.done THEN {"lrrepeat"} ELSE {}
      xs   == [x EXCEPT !.seeds = Append(@, [rule |-> ri, pos |-> x.pos, ok |-> FALSE, val |-> Nil, end |-> x.pos]),
                        !.done = @ \cup {<<ri, x.pos>>}, !.haz = @ \cup hz]
      r0   == Ev(C, C.G.rules[ri], xs, inv, rn)
  IN IF Ab(r0.x) THEN r0
     ELSE IF ~r0.ok THEN Res(FALSE, Nil, [r0.x EXCEPT !.errs = x.errs, !.seeds = x.seeds])  \* outright failure: nothing retained
     ELSE Grow(C, ri, x, r0, inv, 0)
Grow(C, ri, x, seed, inv, n) ==
  LET rn == C.G.names[ri]
      xs == [seed.x EXCEPT !.pos = x.pos, !.env = <<>>,
                           !.seeds = Append(x.seeds, [rule |-> ri, pos |-> x.pos, ok |-> TRUE, val |-> seed.val, end |-> seed.x.pos])]
      r  == Ev(C, C.G.rules[ri], xs, inv, rn) IN
  IF Ab(r.x) THEN r
  ELSE IF r.ok /\ r.x.pos > seed.x.pos THEN Grow(C, ri, x, r, inv, n + 1)
  ELSE \* the final, non-extending attempt: its events happened, its errors and state changes are not retained
       Res(TRUE, seed.val, [r.x EXCEPT !.pos = seed.x.pos, !.env = x.env, !.store = seed.x.store,
                                       !.errs = seed.x.errs, !.seeds = x.seeds])

(************************** canonical encodings ****************************)
RECURSIVE Enc(_), EncAll(_,_)
EncAll(vs, i) == IF i > Len(vs) THEN <<>> ELSE Enc(vs[i]) \o EncAll(vs, i+1)
Enc(v) == CASE v[1] = "n" -> <<0>>
            [] v[1] = "b" -> <<1, Len(v[2])>> \o v[2]
            [] v[1] = "l" -> <<2, Len(v[2])>> \o EncAll(v[2], 1)
            [] v[1] = "a" -> <<3, v[2], Len(v[3])>> \o EncAll(v[3], 1)

(* the regrouping-insensitive encoding of C09: structural lists flattened, nil contributes nothing, *)
(* adjacent byte strings concatenated, action values opaque and in place                          *)
RECURSIVE NormW(_,_), NormList(_,_,_), NormArgs(_,_,_)
Flush(w) == IF w.run = <<>> THEN w.out ELSE w.out \o <<1, Len(w.run)>> \o w.run
NormW(v, w) ==        \* w = [out, run]
  CASE v[1] = "n" -> w
    [] v[1] = "b" -> [w EXCEPT !.run = @ \o v[2]]
    [] v[1] = "l" -> NormList(v[2], 1, w)
    [] v[1] = "a" -> LET sub == NormArgs(v[3], 1, <<>>) IN
                     [out |-> Flush(w) \o <<3, v[2], Len(sub)>> \o sub, run |-> <<>>]
NormList(vs, i, w) == IF i > Len(vs) THEN w ELSE NormList(vs, i+1, NormW(vs[i], w))
NormArgs(vs, i, acc) == IF i > Len(vs) THEN acc
                        ELSE NormArgs(vs, i+1, acc \o Flush(NormW(vs[i], [out |-> <<>>, run |-> <<>>])) \o <<4>>)
NormEnc(v) == Flush(NormW(v, [out |-> <<>>, run |-> <<>>]))

RECURSIVE Dedupe(_,_,_)
Dedupe(es, i, acc) ==
  IF i > Len(es) THEN acc
  ELSE IF \E j \in 1..Len(acc) : acc[j].pos = es[i].pos /\ acc[j].rule = es[i].rule /\ acc[j].msg = es[i].msg
       THEN Dedupe(es, i+1, acc) ELSE Dedupe(es, i+1, Append(acc, es[i]))

(************************** the outcome of a parse *************************)
(* Parse(case): the entry rule is evaluated at offset 0 after the first    *)
(* rune has been advanced onto (outside any rule).                         *)
(* InitState("x", v), InitState("cl", a Cloner holding v) and GlobalStore("g", v) set the initial stores *)
XInit(C) == [X0 EXCEPT !.store = [Store0 EXCEPT !.x = C.opt.initx, !.cl = IF C.opt.initcl >= 0 THEN <<C.opt.initcl>> ELSE <<>>], !.g = C.opt.initg]
RefRun(C) ==
  LET x1 == Advance(C, XInit(C), 0, "")
  IN EvRule(C, C.entry, x1, FALSE)

EOFW == <<69, 79, 70>>
RefOutcome(C) ==
  LET r == RefRun(C)
      x == r.x
      pan == x.ab = "panic"
      bud == x.ab = "budget"
      perr == IF pan THEN <<[pos |-> LineCol(C.inp, x.abinfo[1]), alt |-> LineCol(C.inp, x.abinfo[2]),
                             rule |-> x.abinfo[3], msg |-> "p" \o ToString(x.abinfo[4])]>>
              ELSE IF bud THEN <<[pos |-> LineCol(C.inp, x.abinfo[1]), alt |-> LineCol(C.inp, x.abinfo[1]),
                                  rule |-> x.abinfo[2], msg |-> "max number of expressions parsed"]>>
              ELSE <<>>
      errs == Dedupe(x.errs \o perr, 1, <<>>)
      ok == r.ok /\ ~Ab(x)
  IN [ab |-> x.ab, ok |-> ok,
      end |-> IF ok THEN x.pos ELSE 0,
      val |-> IF ok THEN Enc(r.val) ELSE <<>>,
      nval |-> IF ok THEN NormEnc(r.val) ELSE <<>>,
      store |-> IF ok THEN StoreSnap(x.store) ELSE <<>>,
      g |-> x.g,
      events |-> [i \in 1..Len(x.log) |-> [blk |-> x.log[i].blk, kind |-> x.log[i].kind, pos |-> x.log[i].pos, text |-> x.log[i].text,
                                            args |-> Enc(x.log[i].args), nargs |-> NormEnc(x.log[i].args),
                                            store |-> x.log[i].store, g |-> x.log[i].g]],
      errs |-> errs,
      nomatch |-> (~ok) /\ errs = <<>>,
      npos |-> LineCol(C.inp, x.fmax),
      fmax |-> x.fmax,
      nexp |-> {IF w = <<33, 46>> THEN EOFW ELSE w : w \in x.fset},
      cnt |-> x.cnt,
      ch |-> x.ch,
      haz |-> x.haz]
=============================================================================
