----------------------------- MODULE LeftRecVisited -----------------------------
(***************************************************************************)
(* The left-recursion analysis of pigeon BEFORE the repair of F28          *)
(* (kept only as a generator of adversarial grammars for C19: a grammar    *)
(* whose result depended on the visiting order under this algorithm is run *)
(* first and under every flag set).  Transcribed from                      *)
(* ast/ast.go (NullableVisit / IsNullable / InitialNames, with the flags   *)
(* cached in the nodes, the Visited short-circuit, and Go's short-circuit  *)
(* evaluation) and builder/left_recursion.go (ComputeNullables iterating a *)
(* map: the ORDER in which rules are visited is a parameter, so that TLC   *)
(* can explore every iteration order -- C19).                              *)
(* Switches name what the code does and what a repair would do:            *)
(*   sw.choiceAll  : ChoiceExpr.NullableVisit visits every alternative     *)
(*                   (as built: stops at the first nullable one -- F6)     *)
(*   sw.descend    : & ! ? * + visit their operand (as built before        *)
(*                   the repair: no -- F5), & ! contribute initial names   *)
(*                   (F4), an empty class is not nullable (F7)             *)
(*   sw.throwDepth : > 0: a throw contributes the initial names of the     *)
(*                   recovery expressions listing its label (as built: 0   *)
(*                   -- known finding F22)                                 *)
(***************************************************************************)
EXTENDS Integers, Sequences, FiniteSets, TLC

St0(G) == [nf |-> [e \in 1..Len(G.nodes) |-> FALSE], vis |-> {}, rn |-> [i \in 1..Len(G.rules) |-> FALSE]]
R2(v, st) == [v |-> v, st |-> st]

RECURSIVE Visit(_,_,_,_), VisitSeq(_,_,_,_,_), VisitCh(_,_,_,_,_,_), VisitRule(_,_,_,_)
Visit(G, sw, e, st) ==
  LET n == G.nodes[e] IN
  CASE n.k = "lit" -> R2(Len(n.s) = 0, st)
    [] n.k = "cls" -> R2(IF sw.descend THEN FALSE ELSE (Len(n.s) = 0 /\ Len(n.rng) = 0 /\ Len(n.ucl) = 0), st)
    [] n.k = "any" -> R2(FALSE, st)
    [] n.k \in {"and", "not", "opt", "star"} ->
         IF sw.descend THEN R2(TRUE, Visit(G, sw, n.kids[1], st).st) ELSE R2(TRUE, st)
    [] n.k = "plus" -> IF sw.descend THEN R2(FALSE, Visit(G, sw, n.kids[1], st).st) ELSE R2(FALSE, st)
    [] n.k = "label" -> Visit(G, sw, n.kids[1], st)
    [] n.k = "action" -> LET r == Visit(G, sw, n.kids[1], st) IN R2(r.v, [r.st EXCEPT !.nf[e] = r.v])
    [] n.k = "recover" ->
         LET r1 == Visit(G, sw, n.kids[1], st) IN
         IF r1.v THEN R2(TRUE, [r1.st EXCEPT !.nf[e] = TRUE])            \* Go's || does not evaluate the right operand
         ELSE LET r2 == Visit(G, sw, n.kids[2], r1.st) IN R2(r2.v, [r2.st EXCEPT !.nf[e] = r2.v])
    [] n.k = "seq" -> VisitSeq(G, sw, e, 1, st)
    [] n.k = "choice" -> VisitCh(G, sw, e, 1, st, FALSE)
    [] n.k = "ref" -> LET r == VisitRule(G, sw, n.rule, st) IN R2(r.v, [r.st EXCEPT !.nf[e] = r.v])
    [] OTHER -> R2(TRUE, st)                                              \* throw, state, code predicates
VisitSeq(G, sw, e, i, st) ==
  LET kids == G.nodes[e].kids IN
  IF i > Len(kids) THEN R2(TRUE, [st EXCEPT !.nf[e] = TRUE])
  ELSE LET r == Visit(G, sw, kids[i], st) IN
       IF r.v THEN VisitSeq(G, sw, e, i+1, r.st) ELSE R2(FALSE, [r.st EXCEPT !.nf[e] = FALSE])
VisitCh(G, sw, e, i, st, acc) ==
  LET kids == G.nodes[e].kids IN
  IF i > Len(kids) THEN R2(acc, [st EXCEPT !.nf[e] = acc])
  ELSE LET r == Visit(G, sw, kids[i], st) IN
       IF r.v /\ ~sw.choiceAll THEN R2(TRUE, [r.st EXCEPT !.nf[e] = TRUE])
       ELSE VisitCh(G, sw, e, i+1, r.st, acc \/ r.v)
VisitRule(G, sw, ri, st) ==
  IF ri \in st.vis THEN R2(FALSE, st)                \* "a left-recursive rule is considered non-nullable"
  ELSE LET r == Visit(G, sw, G.rules[ri], [st EXCEPT !.vis = @ \cup {ri}]) IN
       R2(r.v, [r.st EXCEPT !.vis = st.vis, !.rn[ri] = r.v])

RECURSIVE ComputeNullables(_,_,_,_,_)
ComputeNullables(G, sw, order, i, st) ==
  IF i > Len(order) THEN st ELSE ComputeNullables(G, sw, order, i+1, VisitRule(G, sw, order[i], st).st)

RECURSIVE IsNul(_,_,_)
IsNul(G, st, e) ==
  LET n == G.nodes[e] IN
  CASE n.k = "lit" -> Len(n.s) = 0
    [] n.k = "cls" -> FALSE
    [] n.k = "any" -> FALSE
    [] n.k \in {"and", "not", "opt", "star"} -> TRUE
    [] n.k = "plus" -> FALSE
    [] n.k = "label" -> IsNul(G, st, n.kids[1])
    [] n.k \in {"action", "recover", "seq", "choice", "ref"} -> st.nf[e]
    [] OTHER -> TRUE
IsNulB(G, sw, st, e) == IF G.nodes[e].k = "cls" /\ ~sw.descend
                        THEN (Len(G.nodes[e].s) = 0 /\ Len(G.nodes[e].rng) = 0 /\ Len(G.nodes[e].ucl) = 0) ELSE IsNul(G, st, e)

RECURSIVE Names(_,_,_,_), NamesSeq(_,_,_,_,_)
Names(G, sw, st, e) ==
  LET n == G.nodes[e] IN
  CASE n.k = "ref" -> {n.rule}
    [] n.k \in {"and", "not"} -> IF sw.descend THEN Names(G, sw, st, n.kids[1]) ELSE {}
    [] n.k \in {"opt", "star", "plus", "label", "action"} -> Names(G, sw, st, n.kids[1])
    [] n.k = "recover" -> Names(G, sw, st, n.kids[1]) \cup Names(G, sw, st, n.kids[2])
    [] n.k = "choice" -> UNION {Names(G, sw, st, n.kids[i]) : i \in 1..Len(n.kids)}
    [] n.k = "seq" -> NamesSeq(G, sw, st, n.kids, 1)
    \* NOT in pigeon (sw.throwDepth = 0 as built): a throw may run, at its own position, the recovery expression of any
    \* recovery operator listing its label -- the operator is still in force while its recovery expression runs (F22)
    [] n.k = "throw" /\ sw.throwDepth > 0 ->
         UNION {Names(G, [sw EXCEPT !.throwDepth = @ - 1], st, G.nodes[h].kids[2]) :
                  h \in {x \in 1..Len(G.nodes) : G.nodes[x].k = "recover" /\ n.lab \in {G.nodes[x].labs[i] : i \in 1..Len(G.nodes[x].labs)}}}
    [] OTHER -> {}
NamesSeq(G, sw, st, kids, i) ==
  IF i > Len(kids) THEN {}
  ELSE Names(G, sw, st, kids[i]) \cup (IF IsNulB(G, sw, st, kids[i]) THEN NamesSeq(G, sw, st, kids, i+1) ELSE {})

RECURSIVE ReachI(_,_,_)
ReachI(edges, S, n) == IF n = 0 THEN S ELSE ReachI(edges, S \cup UNION {edges[v] : v \in S}, n-1)

(* the result of the analysis for one iteration order: the first graph, the rules on a cycle,  *)
(* whether the grammar is rejected without the flag                                            *)
Analyse(G, sw, order) ==
  LET st == ComputeNullables(G, sw, order, 1, St0(G))
      edges == [i \in 1..Len(G.rules) |-> Names(G, sw, st, G.rules[i])]
      rec == {i \in 1..Len(G.rules) : i \in ReachI(edges, edges[i], Len(G.rules))}
  IN [edges |-> edges, leftrec |-> rec, reject |-> rec # {}]

Identity(G) == [i \in 1..Len(G.rules) |-> i]
AsRepaired == [choiceAll |-> FALSE, descend |-> TRUE, throwDepth |-> 0]
AsF6Repaired == [choiceAll |-> TRUE, descend |-> TRUE, throwDepth |-> 0]
AsF22Repaired == [choiceAll |-> TRUE, descend |-> TRUE, throwDepth |-> 3]
=============================================================================
