-------------------------------- MODULE AstEq --------------------------------
(***************************************************************************)
(* C03 / C20a: the AST built by a grammar front-end against the AST the    *)
(* text denotes.                                                           *)
(*  Cases  : one record per grammar text: the bytes, the AST the renderer  *)
(*           (lib/pegtext.py, the specification of the concrete syntax)    *)
(*           spelled, with for every node the byte offset of the first     *)
(*           token of its production;                                      *)
(*  Obs    : the dump of the AST the real front-end built (hook).          *)
(* Node by node: kind, identifier, value bytes, i/^ flags, class members,  *)
(* labels, number of children, and the position, which must be             *)
(* LineCol(text, offset) -- PegRef's pure position function.               *)
(* mode "pair": two observed ASTs (bootstrap front-end vs pigeon           *)
(* front-end) are compared structurally, positions and display-name        *)
(* quoting projected away (C20a).                                          *)
(***************************************************************************)
EXTENDS PegRef, Json

Cases == ndJsonDeserialize("astcases.ndjson")   \* [id, text, exp]   (exp absent in pair mode: <<>>)
Obs   == ndJsonDeserialize("astobs.ndjson")     \* [id, ok, errs, ast]  and in pair mode [id, ok, ast, ok2, ast2]
Mode  == JsonDeserialize("astmode.json").mode

RECURSIVE NodeDiff(_,_,_,_)
(* "" if equal, else a path/field description of the first difference *)
NodeDiff(text, e, o, path) ==
  IF e.t # o.t THEN path \o ":kind"
  ELSE IF e.name # o.name THEN path \o ":name"
  ELSE IF e.val # o.val /\ ~(Mode = "pair" /\ e.t = "Rule") THEN path \o ":val"
  ELSE IF e.ic # o.ic THEN path \o ":i-flag"
  ELSE IF e.inv # o.inv THEN path \o ":inverted"
  ELSE IF e.chars # o.chars THEN path \o ":chars"
  ELSE IF e.rngs # o.rngs THEN path \o ":ranges"
  ELSE IF e.ucl # o.ucl THEN path \o ":classes"
  ELSE IF e.labs # o.labs THEN path \o ":labels"
  ELSE IF Mode = "exp" /\ o.pos # LineCol(text, e.off) THEN path \o ":pos"
  ELSE IF Len(e.kids) # Len(o.kids) THEN path \o ":arity"
  ELSE LET bad == {i \in 1..Len(e.kids) : NodeDiff(text, e.kids[i], o.kids[i], path \o "/" \o ToString(i)) # ""} IN
       IF bad = {} THEN ""
       ELSE LET i == CHOOSE i \in bad : \A j \in bad : i <= j IN NodeDiff(text, e.kids[i], o.kids[i], path \o "/" \o ToString(i))

Verdict(k) ==
  LET c == Cases[k]  o == Obs[k] IN
  IF Mode = "exp" THEN
       IF ~o.ok THEN <<"rejected", 0>>
       ELSE LET d == NodeDiff(c.text, c.exp, o.ast, "") IN IF d = "" THEN <<"same", 0>> ELSE <<"ast" \o d, 0>>
  ELSE \* pair: a verdict only when the bootstrap front-end understood the text
       IF ~o.ok THEN <<"same", 0>>
       ELSE IF ~o.ok2 THEN <<"pigeon-rejects", 0>>
       ELSE LET d == NodeDiff(c.text, o.ast, o.ast2, "") IN IF d = "" THEN <<"same", 0>> ELSE <<"ast" \o d, 0>>

VARIABLES k, bad
vars == <<k, bad>>
Init == k = 1 /\ bad = 0
Next == /\ k <= Len(Obs)
        /\ LET df == Verdict(k) IN
           IF df[1] = "same" THEN bad' = bad
           ELSE /\ bad' = bad + 1
                /\ PrintT("DIVERGE " \o ToJson([k |-> Cases[k].id, vi |-> 0, gi |-> 0, ii |-> 0, oi |-> 0, df |-> df[1], at |-> 0, haz |-> <<>>]))
        /\ k' = k + 1
Spec == Init /\ [][Next]_vars
Accepted == (k > Len(Obs)) => PrintT("DONE " \o ToJson([n |-> Len(Obs), bad |-> bad]))
=============================================================================
