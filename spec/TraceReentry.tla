---------------------------- MODULE TraceReentry -----------------------------
(***************************************************************************)
(* C07, second sentence: "a parser generated without the flag never        *)
(* re-enters a rule at an offset at which that rule is already being       *)
(* evaluated".  The trace is the sequence of "> parseRule NAME" /          *)
(* "< parseRule NAME" lines that Debug(true) printed in a real run, with   *)
(* the offset of each; the specification is a stack machine: entering      *)
(* pushes <<rule, offset>>, leaving pops.  NoReentry is a state invariant  *)
(* evaluated in every state of every real trace (one TLC step per line).   *)
(***************************************************************************)
EXTENDS Integers, Sequences, FiniteSets, TLC, Json

Traces == ndJsonDeserialize("reentry.ndjson")     \* [gi, ii, evs: [[dir, rule, off]]]

VARIABLES k, j, stack, bad
vars == <<k, j, stack, bad>>
Init == k = 1 /\ j = 1 /\ stack = <<>> /\ bad = 0
Reentered(st) == \E a, b \in 1..Len(st) : a # b /\ st[a] = st[b]
Next ==
  /\ k <= Len(Traces)
  /\ LET t == Traces[k] IN
     IF j > Len(t.evs) THEN k' = k + 1 /\ j' = 1 /\ stack' = <<>> /\ bad' = bad
     ELSE LET ev == t.evs[j]
              st2 == IF ev[1] = ">" THEN Append(stack, <<ev[2], ev[3]>>)
                     ELSE IF stack # <<>> THEN SubSeq(stack, 1, Len(stack) - 1) ELSE stack IN
          IF Reentered(st2) THEN
               /\ PrintT("DIVERGE " \o ToJson([k |-> k, vi |-> 1, gi |-> t.gi, ii |-> t.ii, oi |-> 1, df |-> "rule-re-entered-at-same-offset", at |-> j, haz |-> <<>>]))
               /\ bad' = bad + 1 /\ k' = k + 1 /\ j' = 1 /\ stack' = <<>>
          ELSE stack' = st2 /\ j' = j + 1 /\ UNCHANGED <<k, bad>>
Spec == Init /\ [][Next]_vars
NoReentry == ~Reentered(stack)
Accepted == (k > Len(Traces)) => PrintT("DONE " \o ToJson([n |-> Len(Traces), bad |-> bad]))
=============================================================================
