------------------------------ MODULE Optimize -------------------------------
(***************************************************************************)
(* C09, design level: the rewrites of ast.Optimize as a rewriting system   *)
(* over a HEAP of nodes (so that sharing is representable: the in-place    *)
(* merges are only dangerous when a node is reachable from two places).    *)
(*                                                                         *)
(*   Inline(occ)       a reference to a rule without references is         *)
(*                     replaced by a deep copy of that rule's expression   *)
(*                     (wrapped in a label-less labelled expression when   *)
(*                     it binds labels: the scope of the inlined rule)     *)
(*   FlattenSeq / FlattenChoice   a sequence in a sequence, a choice in a  *)
(*                     choice                                              *)
(*   Single(occ)       a sequence / choice of one element                  *)
(*   MergeLits(p, i)   adjacent literals of a sequence (IN PLACE)          *)
(*   MergeAlts(p, i)   adjacent single-character literals / classes of a   *)
(*                     choice (classes IN PLACE)                           *)
(*   DropRule(r)       a rule that is neither used nor protected           *)
(*                                                                         *)
(* TLC explores EVERY order of applicable rewrites from each initial       *)
(* grammar of a bounded family and checks in every reachable state that    *)
(* the grammar still means the same as the original (PegRef on all inputs  *)
(* up to a bound: acceptance, consumed prefix, regrouping-insensitive      *)
(* value, action events), and that the protected rules are still there.    *)
(* Switches reproduce the defects that were repaired (each yields a        *)
(* counterexample): ShareLits (cloneExpr returned literal nodes unshared), *)
(* MergeInverted (two inverted classes merged member-wise), LeakLabels     *)
(* (no scope around an inlined rule that binds labels).                    *)
(***************************************************************************)
EXTENDS PegRef, Json, SequencesExt

CONSTANTS ShareLits, MergeInverted, LeakLabels,
          Explore        \* FALSE: no rewriting, only the initial states (ObsMeaning on a large family)

Groups == ndJsonDeserialize("groups.ndjson")
ObsGroups == ndJsonDeserialize("obsgroups.ndjson")     \* the grammars ast.Optimize really produced (same rule numbering)
Cfg    == JsonDeserialize("tcase.json")

VARIABLES ci, nodes, roots, alive
vars == <<ci, nodes, roots, alive>>

NRules == Len(roots)
G0(c) == Groups[c]
Protected(c, r) == r = 1 \/ r \in ToSet(Cfg.protected[c])

Init == /\ ci \in 1..Len(Groups)
        /\ nodes = G0(ci).nodes /\ roots = G0(ci).rules /\ alive = [r \in 1..Len(G0(ci).rules) |-> TRUE]

(* ---- the heap ------------------------------------------------------------------------ *)
RECURSIVE Reach(_,_)
Reach(ns, e) == {e} \cup UNION {Reach(ns, ns[e].kids[i]) : i \in 1..Len(ns[e].kids)}
Live == UNION {Reach(nodes, roots[r]) : r \in {q \in 1..NRules : alive[q]}}
RefsOf(e) == {nodes[x].rule : x \in {y \in Reach(nodes, e) : nodes[y].k = "ref"}}
UsedBy(r) == {q \in 1..NRules : alive[q] /\ r \in RefsOf(roots[q])}
IsLeafRule(r) == alive[r] /\ RefsOf(roots[r]) = {}

(* an occurrence: a rule root or the i-th child of a live node *)
Occs == {<<"rule", r, 0>> : r \in {q \in 1..NRules : alive[q]}} \cup
        UNION {{<<"kid", p, i>> : i \in 1..Len(nodes[p].kids)} : p \in Live}
OccOk(o) == o[1] = "rule" \/ (o[2] \in Live /\ o[3] <= Len(nodes[o[2]].kids))
At(o) == IF o[1] = "rule" THEN roots[o[2]] ELSE nodes[o[2]].kids[o[3]]
ReplaceIn(ns, rs, o, e) ==      \* <<nodes', roots'>>
  IF o[1] = "rule" THEN <<ns, [rs EXCEPT ![o[2]] = e]>>
  ELSE <<[ns EXCEPT ![o[2]].kids[o[3]] = e], rs>>

(* cloneExpr: a deep copy appended to the heap; with ShareLits literal nodes are returned as they are *)
RECURSIVE Clone(_,_), CloneKids(_,_,_,_)
Clone(ns, e) ==       \* <<heap', id of the copy>>
  IF ShareLits /\ ns[e].k = "lit" THEN <<ns, e>>
  ELSE LET r == CloneKids(ns, ns[e].kids, 1, <<>>)
           n2 == [ns[e] EXCEPT !.kids = r[2]] IN
       <<Append(r[1], n2), Len(r[1]) + 1>>
CloneKids(ns, kids, i, acc) ==
  IF i > Len(kids) THEN <<ns, acc>>
  ELSE LET c == Clone(ns, kids[i]) IN CloneKids(c[1], kids, i + 1, Append(acc, c[2]))

RECURSIVE Binds(_,_)
Binds(ns, e) == CASE ns[e].k = "label" -> ns[e].lab # ""
                  [] ns[e].k \in {"seq", "recover"} -> \E i \in 1..Len(ns[e].kids) : Binds(ns, ns[e].kids[i])
                  [] ns[e].k = "action" -> Binds(ns, ns[e].kids[1])
                  [] OTHER -> FALSE

Blank == [k |-> "", kids |-> <<>>, s |-> <<>>, rng |-> <<>>, ucl |-> <<>>, ic |-> FALSE, inv |-> FALSE, lab |-> "", labs |-> <<>>,
          blk |-> 0, rule |-> 0, args |-> <<>>, want |-> <<>>, key |-> "x", op |-> "", arg |-> 0, g |-> 0, err |-> FALSE, xl |-> FALSE]

(* ---- the rewrites ---------------------------------------------------------------------- *)
Inline(o) ==
  /\ OccOk(o) /\ nodes[At(o)].k = "ref" /\ IsLeafRule(nodes[At(o)].rule)
  /\ (o[1] = "rule" => o[2] # nodes[At(o)].rule)
  /\ LET c == Clone(nodes, roots[nodes[At(o)].rule])
         wrap == Binds(c[1], c[2]) /\ ~LeakLabels
         ns1 == IF wrap THEN Append(c[1], [Blank EXCEPT !.k = "label", !.kids = <<c[2]>>]) ELSE c[1]
         e1 == IF wrap THEN Len(ns1) ELSE c[2]
         r == ReplaceIn(ns1, roots, o, e1) IN
     nodes' = r[1] /\ roots' = r[2]
  /\ UNCHANGED <<ci, alive>>

Flatten(p, i) ==      \* a sequence in a sequence / a choice in a choice
  /\ p \in Live /\ nodes[p].k \in {"seq", "choice"} /\ i <= Len(nodes[p].kids)
  /\ nodes[nodes[p].kids[i]].k = nodes[p].k
  /\ LET ks == nodes[p].kids IN
     nodes' = [nodes EXCEPT ![p].kids = SubSeq(ks, 1, i - 1) \o nodes[ks[i]].kids \o SubSeq(ks, i + 1, Len(ks))]
  /\ UNCHANGED <<ci, roots, alive>>

Single(o) ==
  /\ OccOk(o) /\ nodes[At(o)].k \in {"seq", "choice"} /\ Len(nodes[At(o)].kids) = 1
  /\ LET r == ReplaceIn(nodes, roots, o, nodes[At(o)].kids[1]) IN nodes' = r[1] /\ roots' = r[2]
  /\ UNCHANGED <<ci, alive>>

MergeLits(p, i) ==    \* "a" "b" => "ab": the first literal is extended IN PLACE
  /\ p \in Live /\ nodes[p].k = "seq" /\ i >= 2 /\ i <= Len(nodes[p].kids)
  /\ LET a == nodes[p].kids[i - 1]  b == nodes[p].kids[i] IN
     /\ nodes[a].k = "lit" /\ nodes[b].k = "lit" /\ nodes[a].ic = nodes[b].ic
     /\ nodes' = [nodes EXCEPT ![a].s = @ \o nodes[b].s, ![p].kids = SubSeq(@, 1, i - 1) \o SubSeq(@, i + 1, Len(@))]
  /\ UNCHANGED <<ci, roots, alive>>

OneChar(e) == nodes[e].k = "lit" /\ Len(nodes[e].s) = 1
MergeAlts(p, i) ==
  /\ p \in Live /\ nodes[p].k = "choice" /\ i >= 2 /\ i <= Len(nodes[p].kids)
  /\ LET a == nodes[p].kids[i - 1]  b == nodes[p].kids[i]
         drop == [nodes[p] EXCEPT !.kids = SubSeq(@, 1, i - 1) \o SubSeq(@, i + 1, Len(@))] IN
     \/ /\ OneChar(a) /\ OneChar(b) /\ nodes[a].ic = nodes[b].ic          \* "a" / "b" => [ab]  (a new class node)
        /\ nodes' = Append([nodes EXCEPT ![p].kids = SubSeq(@, 1, i - 2) \o <<Len(nodes) + 1>> \o SubSeq(@, i + 1, Len(@))],
                           [Blank EXCEPT !.k = "cls", !.s = nodes[a].s \o nodes[b].s, !.ic = nodes[a].ic])
     \/ /\ OneChar(a) /\ nodes[b].k = "cls" /\ nodes[a].ic = nodes[b].ic /\ ~nodes[b].inv     \* "a" / [bc] => [bca] in place
        /\ nodes' = [nodes EXCEPT ![b].s = @ \o nodes[a].s, ![p].kids = SubSeq(@, 1, i - 2) \o SubSeq(@, i, Len(@))]
     \/ /\ nodes[a].k = "cls" /\ OneChar(b) /\ nodes[a].ic = nodes[b].ic /\ ~nodes[a].inv     \* [ab] / "c" => [abc] in place
        /\ nodes' = [nodes EXCEPT ![a].s = @ \o nodes[b].s, ![p] = drop]
     \/ /\ nodes[a].k = "cls" /\ nodes[b].k = "cls" /\ nodes[a].ic = nodes[b].ic              \* [ab] / [cd] => [abcd] in place
        /\ IF MergeInverted THEN nodes[a].inv = nodes[b].inv ELSE (~nodes[a].inv /\ ~nodes[b].inv)
        /\ nodes' = [nodes EXCEPT ![a].s = @ \o nodes[b].s, ![a].rng = @ \o nodes[b].rng, ![p] = drop]
  /\ UNCHANGED <<ci, roots, alive>>

DropRule(r) ==
  /\ alive[r] /\ ~Protected(ci, r) /\ UsedBy(r) \ {r} = {} /\ r \notin RefsOf(roots[r])
  /\ alive' = [alive EXCEPT ![r] = FALSE]
  /\ UNCHANGED <<ci, nodes, roots>>

Next == /\ Explore
        /\
           \/ \E o \in Occs : Inline(o) \/ Single(o)
           \/ \E p \in Live : \E i \in 1..Len(nodes[p].kids) : Flatten(p, i) \/ MergeLits(p, i) \/ MergeAlts(p, i)
           \/ \E r \in 1..NRules : DropRule(r)
Spec == Init /\ [][Next]_vars

(* two heaps that unfold to the same trees are the same grammar when nothing is shared (the order in which copies *)
(* were appended to the heap is not part of the state); used as VIEW when ShareLits is off                      *)
RECURSIVE Tree(_)
Tree(e) == <<[nodes[e] EXCEPT !.kids = <<>>], [i \in 1..Len(nodes[e].kids) |-> Tree(nodes[e].kids[i])]>>
TreeView == <<ci, [r \in 1..NRules |-> IF alive[r] THEN Tree(roots[r]) ELSE <<>>]>>

(* ---- conformance: the grammar ast.Optimize really produced is one of the reachable states ---------------- *)
(* A grammar is flattened into a sequence of integers (preorder; kind, fields, children), insensitive to the   *)
(* order and multiplicity of class members (the implementation removes duplicates at the end).  The harness    *)
(* flattens the AST dumped from the real optimizer the same way: Cfg.observed[ci].                              *)
KindCode(k) == CASE k = "lit" -> 1 [] k = "cls" -> 2 [] k = "any" -> 3 [] k = "seq" -> 4 [] k = "choice" -> 5 [] k = "label" -> 6
                 [] k = "action" -> 7 [] k = "ref" -> 8 [] k = "and" -> 9 [] k = "not" -> 10 [] k = "opt" -> 11 [] k = "star" -> 12
                 [] k = "plus" -> 13 [] k = "state" -> 14 [] k = "andcode" -> 15 [] k = "notcode" -> 16 [] k = "throw" -> 17
                 [] k = "recover" -> 18 [] OTHER -> 99
LabCode(c, l) == IF l = "" THEN 0 ELSE CHOOSE i \in 1..Len(Cfg.labels[c]) : Cfg.labels[c][i] = l
B(b) == IF b THEN 1 ELSE 0
Low(n, r) == IF n.ic THEN LowerOf(Cfg.lower, r) ELSE r
SortedInts(S) == SetToSortSeq(S, <)
RECURSIVE Canon(_), CanonKids(_,_)
Canon(e) ==
  LET n == nodes[e]
      own == CASE n.k = "lit" -> <<B(n.ic), Len(n.s)>> \o [i \in 1..Len(n.s) |-> Low(n, n.s[i])]
               [] n.k = "cls" -> LET cs == SortedInts({Low(n, n.s[i]) : i \in 1..Len(n.s)})
                                     rs == SortedInts({Low(n, n.rng[2*i-1]) * 2097152 + Low(n, n.rng[2*i]) : i \in 1..(Len(n.rng) \div 2)}) IN
                                 <<B(n.ic), B(n.inv), Len(cs)>> \o cs \o <<Len(rs)>> \o rs
               [] n.k = "label" -> <<LabCode(ci, n.lab)>>
               [] n.k \in {"action", "state", "andcode", "notcode"} -> <<n.blk>>
               [] n.k = "ref" -> <<n.rule>>
               [] n.k = "throw" -> <<LabCode(ci, n.lab)>>
               [] n.k = "recover" -> <<Len(n.labs)>> \o [i \in 1..Len(n.labs) |-> LabCode(ci, n.labs[i])]
               [] OTHER -> <<>>
  IN <<KindCode(n.k), Len(n.kids)>> \o own \o CanonKids(n.kids, 1)
CanonKids(ks, i) == IF i > Len(ks) THEN <<>> ELSE Canon(ks[i]) \o CanonKids(ks, i + 1)
RECURSIVE CanonRules(_)
CanonRules(r) == IF r > NRules THEN <<>> ELSE (IF alive[r] THEN <<-r>> \o Canon(roots[r]) ELSE <<>>) \o CanonRules(r + 1)
(* always TRUE; prints a line when the state is the observed grammar *)
Probe == (CanonRules(1) = Cfg.observed[ci]) => PrintT(<<"REACHED", ci>>)

(* ---- the property ------------------------------------------------------------------------ *)
CaseG(ns, rs, c, inp, entry) ==
  [G |-> [G0(c) EXCEPT !.nodes = ns, !.rules = rs],
   inp |-> inp, opt |-> Cfg.options[1], errblks |-> {}, lower |-> Cfg.lower, uclass |-> Cfg.uclass, entry |-> entry]
Sem(ns, rs, c, inp, entry) ==
  LET o == RefOutcome(CaseG(ns, rs, c, inp, entry)) IN
  <<o.ok, o.end, o.nval, [i \in 1..Len(o.events) |-> <<o.events[i].blk, o.events[i].pos, o.events[i].text, o.events[i].nargs>>]>>
EntryRules(c) == {r \in 1..Len(G0(c).rules) : Protected(c, r)}
SameMeaning == \A r \in EntryRules(ci) : \A k \in 1..Len(Cfg.inputs) :
                  Sem(nodes, roots, ci, Cfg.inputs[k], r) = Sem(G0(ci).nodes, G0(ci).rules, ci, Cfg.inputs[k], r)
(* the grammar the implementation produced means the same as the original (evaluated once per grammar, in the   *)
(* initial state; always TRUE, a difference is printed and judged by the harness)                              *)
IsInitial == nodes = G0(ci).nodes /\ roots = G0(ci).rules /\ \A r \in 1..NRules : alive[r]
ObsMeaning == IsInitial => \A r \in EntryRules(ci) : \A k \in 1..Len(Cfg.inputs) :
                 \/ Sem(ObsGroups[ci].nodes, ObsGroups[ci].rules, ci, Cfg.inputs[k], r) = Sem(G0(ci).nodes, G0(ci).rules, ci, Cfg.inputs[k], r)
                 \/ PrintT(<<"OBSDIFF", ci, r, k>>)
ProtectedAlive == \A r \in EntryRules(ci) : alive[r]
NoDanglingRef == \A e \in Live : nodes[e].k = "ref" => alive[nodes[e].rule]
=============================================================================
