----------------------------- MODULE MCMachine ------------------------------
(***************************************************************************)
(* Exhaustive model checking of the design model M (PegMachine) over a     *)
(* bounded family of cases (grammar x input x options), given as the set   *)
(* of initial states.  In EVERY state of EVERY run the step invariants of  *)
(* the properties are evaluated, and at every terminal state the outcome   *)
(* of M must be the outcome of the reference semantics R (PegRef).         *)
(***************************************************************************)
EXTENDS PegMachine, Json, SequencesExt

Groups == ndJsonDeserialize("groups.ndjson")
Cfg    == JsonDeserialize("tcase.json")

CaseAt(ci) == LET p == Cfg.plan[ci]  opt == Cfg.options[p[3]] IN
  [G |-> Groups[p[1]], inp |-> Cfg.inputs[p[2]], opt |-> opt, errblks |-> ToSet(opt.errblks),
   lower |-> Cfg.lower, uclass |-> Cfg.uclass, entry |-> 1, asbuilt |-> Cfg.asbuilt]

VARIABLES ci, m
vars == <<ci, m>>
Init == ci \in 1..Len(Cfg.plan) /\ m = MInit(CaseAt(ci))
Next == /\ m.mode # "done"
        /\ m' = Step(CaseAt(ci), m)
        /\ ci' = ci
Spec == Init /\ [][Next]_vars /\ WF_vars(Next)

(* C02: line and col are a pure function of the input and the offset, in every state *)
PosIsPure == PosOf(m.pt) = LineCol(CaseAt(ci).inp, m.pt.off)
(* C01/C05: a failing expression consumes nothing and leaves the store as it was; label scopes are balanced *)
StepChecks == m.chk = "ok"
(* C16: the budget is never overrun by more than the evaluation that detects it *)
BudgetBound == CaseAt(ci).opt.maxexpr > 0 => m.cnt <= CaseAt(ci).opt.maxexpr + 1
(* C06: a memo entry is the result of that expression at that offset *)
MemoFunctional == \A a, b \in m.memo : a.key = b.key => a = b

EvEqM(a, b, C) == /\ a.blk = b.blk /\ a.args = b.args /\ a.store = b.store /\ a.g = b.g
                  /\ ((C.asbuilt.stalectx /\ b.kind # "act") \/ (a.pos = b.pos /\ a.text = b.text))
RECURSIVE SubM(_,_,_,_,_)
SubM(os, j, xs, i, C) == IF j > Len(os) THEN TRUE ELSE IF i > Len(xs) THEN FALSE
                         ELSE IF EvEqM(os[j], xs[i], C) THEN SubM(os, j+1, xs, i+1, C) ELSE SubM(os, j, xs, i+1, C)
HasLRG(G) == \E i \in 1..Len(G.lr) : G.lr[i] > 0
RECURSIVE SupM(_,_,_,_,_)
SupM(xs, i, os, j, C) == IF i > Len(xs) THEN TRUE ELSE IF j > Len(os) THEN FALSE         \* the reference events are a subsequence of the machine's
                         ELSE IF EvEqM(os[j], xs[i], C) THEN SupM(xs, i+1, os, j+1, C) ELSE SupM(xs, i, os, j+1, C)
Refines(C, o, x) ==
  IF HasLRG(C.G) THEN       \* C08: the seed-growing machine against the iterative meaning
       \/ x.ab # "none" \/ o.ab # "none"
       \/ /\ o.ok = x.ok /\ o.end = x.end
          /\ ("lrrepeat" \in x.haz \/ (C.opt.memo /\ "rulerepeat" \in x.haz) \/      \* the second: known finding F21 (as built)
              (/\ o.val = x.val /\ o.store = x.store
               /\ Len(o.errs) = Len(x.errs) /\ \A i \in 1..Len(x.errs) : o.errs[i] = x.errs[i]
               /\ (C.opt.memo \/ SupM(x.events, 1, o.events, 1, C))))
  ELSE
  IF x.ab = "div" THEN o.ab = "budget"                      \* the meaning diverges: only the budget ends the run
  ELSE IF o.ab = "budget" THEN (x.cnt + 3 > C.opt.maxexpr)
  ELSE /\ o.ok = x.ok /\ o.end = x.end
       /\ (("memolabel" \in x.haz /\ C.opt.memo /\ C.asbuilt.memolabel) \/
           (/\ o.val = x.val /\ o.store = x.store
            /\ IF C.opt.memo THEN SubM(o.events, 1, x.events, 1, C)
               ELSE Len(o.events) = Len(x.events) /\ \A i \in 1..Len(x.events) : EvEqM(o.events[i], x.events[i], C)))
       /\ ("memolabel" \in x.haz \/
           (/\ Len(o.errs) = Len(x.errs) /\ \A i \in 1..Len(x.errs) : o.errs[i] = x.errs[i]
            /\ o.nomatch = x.nomatch /\ (x.nomatch => (o.npos = x.npos /\ o.nexp = x.nexp))))
       /\ (C.opt.memo \/ (o.g = x.g /\ o.cnt = x.cnt + 3))
Refinement == (m.mode = "done" /\ Cfg.asbuilt.acccap = 0) =>
                LET C == CaseAt(ci) IN Refines(C, MOutcome(C, m), RefOutcome([C EXCEPT !.opt.maxexpr = 0]))
Termination == <>(m.mode = "done")
=============================================================================
