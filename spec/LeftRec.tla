------------------------------- MODULE LeftRec -------------------------------
(***************************************************************************)
(* C07: which grammars contain left recursion.                             *)
(*                                                                         *)
(* Two oracles, deliberately apart, so that a verdict never demands more   *)
(* than the statement:                                                     *)
(*  MAY  (syntactic over-approximation): the first-call graph built with   *)
(*       "may be nullable" and with every alternative, predicate operand,  *)
(*       repetition body and recovery expression contributing, has a cycle.*)
(*       A grammar WITHOUT a MayCycle has no left recursion: pigeon must   *)
(*       accept it.                                                        *)
(*  MUST (semantic witness): the reference semantics PegRef, evaluated on  *)
(*       every input up to a bound, re-enters a rule at an offset at which *)
(*       it is already being evaluated.  Such a grammar demonstrably has   *)
(*       left recursion: pigeon must reject it (without the flag).         *)
(* Everything in between is not judged.                                    *)
(***************************************************************************)
EXTENDS PegRef, Json, SequencesExt, LeftRecImpl

Groups == ndJsonDeserialize("groups.ndjson")
Cfg    == JsonDeserialize("tcase.json")
Obs    == ndJsonDeserialize("lrobs.ndjson")     \* [gi, accepted, lrerror, other]

(* may-nullable: least fix-point over the rules *)
RECURSIVE MayNull(_,_,_)
MayNull(G, nul, e) ==
  LET n == G.nodes[e] IN
  CASE n.k = "lit" -> Len(n.s) = 0
    [] n.k \in {"cls", "any"} -> FALSE
    [] n.k \in {"star", "opt", "and", "not", "state", "andcode", "notcode", "throw"} -> TRUE
    [] n.k \in {"plus", "label", "action"} -> MayNull(G, nul, n.kids[1])
    [] n.k = "recover" -> MayNull(G, nul, n.kids[1]) \/ MayNull(G, nul, n.kids[2])
    [] n.k = "seq" -> \A i \in 1..Len(n.kids) : MayNull(G, nul, n.kids[i])
    [] n.k = "choice" -> \E i \in 1..Len(n.kids) : MayNull(G, nul, n.kids[i])
    [] n.k = "ref" -> nul[n.rule]
RECURSIVE NulFix(_,_)
NulFix(G, nul) ==
  LET nx == [i \in 1..Len(G.rules) |-> nul[i] \/ MayNull(G, nul, G.rules[i])] IN
  IF nx = nul THEN nul ELSE NulFix(G, nx)
Nullables(G) == NulFix(G, [i \in 1..Len(G.rules) |-> FALSE])

(* rules that may be called at the position where e starts *)
RECURSIVE First(_,_,_), FirstSeq(_,_,_,_)
First(G, nul, e) ==
  LET n == G.nodes[e] IN
  CASE n.k = "ref" -> {n.rule}
    [] n.k \in {"star", "plus", "opt", "and", "not", "label", "action"} -> First(G, nul, n.kids[1])
    [] n.k = "recover" -> First(G, nul, n.kids[1]) \cup First(G, nul, n.kids[2])
    [] n.k = "choice" -> UNION {First(G, nul, n.kids[i]) : i \in 1..Len(n.kids)}
    [] n.k = "seq" -> FirstSeq(G, nul, n.kids, 1)
    [] OTHER -> {}
FirstSeq(G, nul, kids, i) ==
  IF i > Len(kids) THEN {}
  ELSE First(G, nul, kids[i]) \cup (IF MayNull(G, nul, kids[i]) THEN FirstSeq(G, nul, kids, i+1) ELSE {})

RECURSIVE Reach(_,_,_)
Reach(edges, S, n) == IF n = 0 THEN S ELSE Reach(edges, S \cup UNION {edges[v] : v \in S}, n-1)
(* a rule name may be defined more than once: the LAST definition is the rule (references resolve to it, the analysis *)
(* and the generated parser only know it); the earlier ones are dead text                                          *)
LiveRules(G) == {e \in 1..Len(G.rules) : ~\E e2 \in (e+1)..Len(G.rules) : G.idents[e2] = G.idents[e]}
MayCycle(G) ==
  LET nul == Nullables(G)
      edges == [i \in 1..Len(G.rules) |-> First(G, nul, G.rules[i])]
  IN \E i \in LiveRules(G) : i \in Reach(edges, edges[i], Len(G.rules))

(* the semantic witness: PegRef re-enters a rule on some input of the bounded set *)
CaseFor(G, inp) == [G |-> G, inp |-> inp, opt |-> Cfg.options[1], errblks |-> {}, lower |-> Cfg.lower, uclass |-> Cfg.uclass, entry |-> 1]
MustWitness(G) == {ii \in 1..Len(Cfg.inputs) : \E e \in LiveRules(G) :
                     RefRun([CaseFor(G, Cfg.inputs[ii]) EXCEPT !.entry = e]).x.ab = "reentry"}

(* the order in which the repaired ComputeNullables visits the rules of a test group: sorted names, *)
(* i.e. R1..Rn, then the entry wrapper S, whose traversal re-enters R1                              *)
WOrder(G) == Identity(G) \o <<1>>
Verdict(o) ==
  LET G == Groups[o.gi]
      impl == Analyse(G, AsRepaired, WOrder(G)).reject
  IN
  IF o.other THEN <<"other-error", 0>>
  ELSE IF o.accepted THEN
       LET w == MustWitness(G) IN
       IF w # {} THEN
            \* known finding F6: the cycle is only seen when every alternative of a choice is visited
            \* known finding F22: the cycle closes through a throw that runs a recovery expression in force around it
            <<IF ~impl /\ Analyse(G, AsF6Repaired, WOrder(G)).reject THEN "accepted-left-recursion-F6"
              ELSE IF ~impl /\ Analyse(G, AsF22Repaired, WOrder(G)).reject THEN "accepted-left-recursion-F22"
              ELSE "accepted-left-recursion",
              CHOOSE ii \in w : TRUE>>
       ELSE IF impl THEN <<"model-drift", 0>> ELSE <<"same", 0>>
  ELSE IF ~MayCycle(G) THEN <<"rejected-without-cycle", 0>>
  ELSE IF ~impl THEN <<"model-drift", 0>> ELSE <<"same", 0>>

VARIABLES k, bad
vars == <<k, bad>>
Init == k = 1 /\ bad = 0
Next == /\ k <= Len(Obs)
        /\ LET o == Obs[k]  df == Verdict(o) IN
           IF df[1] = "same" THEN bad' = bad
           ELSE /\ bad' = bad + 1
                /\ PrintT("DIVERGE " \o ToJson([k |-> k, vi |-> 0, gi |-> o.gi, ii |-> df[2], oi |-> 1, df |-> df[1], at |-> 0, haz |-> <<>>]))
        /\ k' = k + 1
Spec == Init /\ [][Next]_vars
Accepted == (k > Len(Obs)) => PrintT("DONE " \o ToJson([n |-> Len(Obs), bad |-> bad]))
=============================================================================
