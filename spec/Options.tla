------------------------------- MODULE Options -------------------------------
(***************************************************************************)
(* The option protocol of a generated parser (doc.go "Options",            *)
(* static_code.go: an Option is a function from a parser to an Option).                      *)
(*                                                                         *)
(* A parser carries a CONFIGURATION; an Option value is a pure description *)
(* of one assignment to it; applying an option performs the assignment and *)
(* returns "the previous setting as an Option".  Parse(.., opts...) applies*)
(* the options from left to right to a fresh configuration.                *)
(*                                                                         *)
(* Abstract configuration (what the options can reach):                    *)
(*   max    maximum number of expressions, 0 = the option's "no limit"     *)
(*          (a fresh parser holds NoLimit; Parse maps 0 to NoLimit after   *)
(*          the options have been applied)                                 *)
(*   entry  index of the entry rule (1 = first rule of the grammar)        *)
(*   debug, memo, allowinv, recover   the boolean switches                 *)
(*   stats  identity of the Stats collector (0 = the parser's own)         *)
(*   nomatch the key of the "no match" counter (0 = "")                    *)
(*   gs     globalStore : key -> value  (0 = absent / nil)                 *)
(*   st     state store : key -> value  (0 = absent / nil)                 *)
(*                                                                         *)
(* An option is a record [k, a, b]: kind, first and second argument.       *)
(* The module is used three ways: (i) TLC checks the algebraic laws of the *)
(* protocol on every reachable configuration (MCOptions), (ii) the step    *)
(* sequences TLC's state graph contains are replayed by the harness on a   *)
(* real parser object inside the generated package, and (iii) the recorded *)
(* configurations are validated against Step (TraceOptions).               *)
(***************************************************************************)
EXTENDS Integers, Sequences, FiniteSets

NoLimit == -1
Keys == {"k1", "k2"}

Cfg0 == [max |-> NoLimit, entry |-> 1, debug |-> FALSE, memo |-> FALSE, allowinv |-> FALSE, recover |-> TRUE,
         stats |-> 0, nomatch |-> 0, gs |-> [k \in Keys |-> 0], st |-> [k \in Keys |-> 0]]

(* the assignment an option performs *)
Set(c, o) ==
  CASE o.k = "max"      -> [c EXCEPT !.max = o.a]
    [] o.k = "entry"    -> [c EXCEPT !.entry = IF o.a = 0 THEN 1 ELSE o.a]     \* Entrypoint(""): the first rule
    [] o.k = "debug"    -> [c EXCEPT !.debug = (o.a = 1)]
    [] o.k = "memo"     -> [c EXCEPT !.memo = (o.a = 1)]
    [] o.k = "allowinv" -> [c EXCEPT !.allowinv = (o.a = 1)]
    [] o.k = "recover"  -> [c EXCEPT !.recover = (o.a = 1)]
    [] o.k = "stats"    -> [c EXCEPT !.stats = o.a, !.nomatch = o.b]
    [] o.k = "gs"       -> [c EXCEPT !.gs[o.key] = o.a]
    [] o.k = "st"       -> [c EXCEPT !.st[o.key] = o.a]

B(x) == IF x THEN 1 ELSE 0
(* "It returns the previous setting as an Option": the option that re-establishes what Set(c, o) overwrote *)
Prev(c, o) ==
  CASE o.k = "max"      -> [o EXCEPT !.a = c.max]
    [] o.k = "entry"    -> [o EXCEPT !.a = c.entry]
    [] o.k = "debug"    -> [o EXCEPT !.a = B(c.debug)]
    [] o.k = "memo"     -> [o EXCEPT !.a = B(c.memo)]
    [] o.k = "allowinv" -> [o EXCEPT !.a = B(c.allowinv)]
    [] o.k = "recover"  -> [o EXCEPT !.a = B(c.recover)]
    [] o.k = "stats"    -> [o EXCEPT !.a = c.stats, !.b = c.nomatch]
    [] o.k = "gs"       -> [o EXCEPT !.a = c.gs[o.key]]
    [] o.k = "st"       -> [o EXCEPT !.a = c.st[o.key]]

Opt(k, key, a, b) == [k |-> k, key |-> key, a |-> a, b |-> b]

(* what Parse does with its option list: left to right on a fresh configuration, then 0 means no limit *)
RECURSIVE Fold(_,_,_)
Fold(c, os, i) == IF i > Len(os) THEN c ELSE Fold(Set(c, os[i]), os, i + 1)
Effective(os) == LET c == Fold(Cfg0, os, 1) IN IF c.max = 0 THEN [c EXCEPT !.max = NoLimit] ELSE c

(* two options touch the same cell of the configuration *)
SameCell(o1, o2) == o1.k = o2.k /\ (o1.k \in {"gs", "st"} => o1.key = o2.key)

=============================================================================
