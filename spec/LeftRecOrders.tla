---------------------------- MODULE LeftRecOrders ----------------------------
(***************************************************************************)
(* C19, design level: ComputeNullables used to visit the rules in map      *)
(* iteration order.  For every grammar of the family TLC evaluates         *)
(* pigeon's analysis (LeftRecImpl) under EVERY visiting order and reports  *)
(* the grammars whose result (first graph / left-recursive rules) depends  *)
(* on the order: these are the adversarial cases replayed on the real tool *)
(* (which must now produce identical bytes: the repaired code sorts).      *)
(* The entry wrapper rule S of a test group is visit 0: its traversal      *)
(* enters rule 1.                                                          *)
(***************************************************************************)
EXTENDS LeftRecImpl, Json

Groups == ndJsonDeserialize("groups.ndjson")

Orders(n) == {p \in [1..(n+1) -> 0..n] : \A i, j \in 1..(n+1) : i # j => p[i] # p[j]}
AsOrder(p) == [i \in 1..Len(p) |-> IF p[i] = 0 THEN 1 ELSE p[i]]
Result(G, p) == LET a == Analyse(G, AsRepaired, AsOrder(p)) IN <<a.edges, a.leftrec>>
Sensitive(G) == LET n == Len(G.rules)  os == Orders(n) IN
                Cardinality({Result(G, p) : p \in os}) > 1
(* the analysis as it was before the repair of F28 (every reference visited the rule again, cut short at a rule being  *)
(* visited): the grammars that were order-sensitive THEN are the adversarial cases for any change that makes the order *)
(* matter again                                                                                                        *)
Old == INSTANCE LeftRecVisited
OldResult(G, p) == LET a == Old!Analyse(G, Old!AsRepaired, AsOrder(p)) IN <<a.edges, a.leftrec>>
Adversarial(G) == LET n == Len(G.rules)  os == Orders(n) IN
                  Cardinality({OldResult(G, p) : p \in os}) > 1
(* the repaired code: sorted names = R1..Rn then S *)
Fixed(G) == Result(G, [i \in 1..(Len(G.rules)+1) |-> IF i <= Len(G.rules) THEN i ELSE 0])

VARIABLES k, sens
vars == <<k, sens>>
Init == k = 1 /\ sens = 0
Next == /\ k <= Len(Groups)
        /\ LET s == Sensitive(Groups[k]) IN
           /\ sens' = sens + (IF s THEN 1 ELSE 0)
           /\ (s => PrintT("SENS " \o ToJson([gi |-> Groups[k].gi, leftrec |-> Fixed(Groups[k])[2] # {}])))
           /\ (Adversarial(Groups[k]) => PrintT("ADV " \o ToJson([gi |-> Groups[k].gi])))
        /\ k' = k + 1
Spec == Init /\ [][Next]_vars
Accepted == (k > Len(Groups)) => PrintT("DONE " \o ToJson([n |-> Len(Groups), sens |-> sens]))
=============================================================================
