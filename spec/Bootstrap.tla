------------------------------ MODULE Bootstrap ------------------------------
(***************************************************************************)
(* C20(b): the artifact graph of the repository's Makefile.  Every checked *)
(* in generated file is the target of exactly one rule Regen(t) whose      *)
(* inputs are sources or other artifacts; a rule is enabled when its       *)
(* inputs exist.  The three stages of the bootstrap                        *)
(*   static code tables -> bootstrap-build -> bootstrap_pigeon.go ->       *)
(*   bootstrap-pigeon -> pigeon.go -> pigeon -> test/example parsers       *)
(* are a FIXPOINT when, started from the checked-in state, every Regen is  *)
(* a stuttering step on the artifact's content.                            *)
(* The log of a real regeneration (one event per rule, with the digests of *)
(* the target before and after) is validated against this specification:   *)
(* events must follow the dependency order and must not change any digest. *)
(***************************************************************************)
EXTENDS Integers, Sequences, FiniteSets, TLC, Json

Log   == ndJsonDeserialize("regen.ndjson")     \* [target, deps: [names], before, after, tracked]
Rules == JsonDeserialize("rules.json")         \* [targets: [[target, [deps]]]]

Targets == {Rules.targets[i][1] : i \in 1..Len(Rules.targets)}
DepsOf(t) == LET i == CHOOSE i \in 1..Len(Rules.targets) : Rules.targets[i][1] = t IN
             {Rules.targets[i][2][j] : j \in 1..Len(Rules.targets[i][2])}
OneRulePerTarget == \A i, j \in 1..Len(Rules.targets) : Rules.targets[i][1] = Rules.targets[j][1] => i = j

VARIABLES k, built, bad
vars == <<k, built, bad>>
Init == k = 1 /\ built = {} /\ bad = 0
(* Regen(t): enabled when every dependency that is itself a target has been rebuilt in this run *)
Regen(ev) == /\ ev.target \in Targets
             /\ (DepsOf(ev.target) \cap Targets) \subseteq built
Stutters(ev) == ev.before = ev.after
Next == /\ k <= Len(Log)
        /\ LET ev == Log[k] IN
           /\ built' = built \cup {ev.target}
           /\ IF Regen(ev) /\ (ev.tracked => Stutters(ev)) THEN bad' = bad
              ELSE /\ bad' = bad + 1
                   /\ PrintT("DIVERGE " \o ToJson([k |-> k, vi |-> 0, gi |-> 0, ii |-> 0, oi |-> 0,
                                                    df |-> IF ~Regen(ev) THEN "order" ELSE "changed", at |-> 0, haz |-> <<>>]))
        /\ k' = k + 1
Spec == Init /\ [][Next]_vars
Accepted == /\ OneRulePerTarget
            /\ (k > Len(Log)) => PrintT("DONE " \o ToJson([n |-> Len(Log), bad |-> bad]))
=============================================================================
