------------------------------ MODULE MCOptions ------------------------------
(***************************************************************************)
(* Exhaustive check of the option protocol (Options.tla) over a small pool *)
(* of option values: every sequence of applications of fresh options,      *)
(* returned (undo) options and re-used options up to MaxSteps steps.       *)
(* Laws (evaluated in every reachable configuration, for every option):    *)
(*   UndoRestores    applying the returned option right away restores the  *)
(*                   configuration                                         *)
(*   Idempotent      an option applied twice is the option applied once    *)
(*   LastWins        of two options on the same cell the later one decides *)
(*   Independent     options on different cells commute                    *)
(*   OnlyItsCell     an option changes nothing but its own cell            *)
(*   Unwind          the returned options applied in reverse order lead    *)
(*                   back to the fresh configuration                       *)
(*   PureValues      the step taken does not depend on how often an option *)
(*                   value was used before (Apply is a function of cfg, o) *)
(* The state graph (-dump) is also the source of the step sequences that   *)
(* the harness replays on a real parser.                                   *)
(***************************************************************************)
EXTENDS Options, TLC
CONSTANT MaxSteps

(* The protocol as a state machine: a step applies a fresh option value, an option value returned by an earlier   *)
(* step (an undo), or an option value that was applied before (option values are plain values: a second use must   *)
(* behave like the first).                                                                                         *)
VARIABLES cfg,     \* the parser's configuration
          given,   \* the option values applied so far, in order
          ret      \* the option values returned by those applications
vars == <<cfg, given, ret>>

Init == cfg = Cfg0 /\ given = <<>> /\ ret = <<>>
Apply(o) == /\ cfg' = Set(cfg, o)
            /\ given' = Append(given, o)
            /\ ret' = Append(ret, Prev(cfg, o))

Pool == {Opt("max", "", a, 0) : a \in {0, 5}} \cup {Opt("entry", "", a, 0) : a \in {0, 2}}
        \cup {Opt(k, "", a, 0) : k \in {"debug", "memo", "allowinv", "recover"}, a \in {0, 1}}
        \cup {Opt("stats", "", 1, 1), Opt("stats", "", 2, 2), Opt("stats", "", 1, 2)}
        \cup {Opt("gs", "k1", 1, 0), Opt("gs", "k1", 2, 0), Opt("gs", "k2", 1, 0), Opt("st", "k1", 1, 0), Opt("st", "k1", 2, 0)}

Next == /\ Len(given) < MaxSteps
        /\ \/ \E o \in Pool : Apply(o)
           \/ \E j \in 1..Len(ret) : Apply(ret[j])
           \/ \E j \in 1..Len(given) : Apply(given[j])
Spec == Init /\ [][Next]_vars

AllOpts == Pool \cup {ret[j] : j \in 1..Len(ret)}
Cell(c, o) == CASE o.k = "stats" -> <<c.stats, c.nomatch>> [] o.k = "gs" -> c.gs[o.key] [] o.k = "st" -> c.st[o.key]
                [] o.k = "max" -> c.max [] o.k = "entry" -> c.entry [] o.k = "debug" -> c.debug [] o.k = "memo" -> c.memo
                [] o.k = "allowinv" -> c.allowinv [] o.k = "recover" -> c.recover

UndoRestores == \A o \in AllOpts : Set(Set(cfg, o), Prev(cfg, o)) = cfg
Idempotent   == \A o \in AllOpts : Set(Set(cfg, o), o) = Set(cfg, o)
LastWins     == \A o1, o2 \in AllOpts : SameCell(o1, o2) => Set(Set(cfg, o1), o2) = Set(cfg, o2)
Independent  == \A o1, o2 \in AllOpts : ~SameCell(o1, o2) => Set(Set(cfg, o1), o2) = Set(Set(cfg, o2), o1)
OnlyItsCell  == \A o1, o2 \in AllOpts : ~SameCell(o1, o2) => Cell(Set(cfg, o1), o2) = Cell(cfg, o2)
RECURSIVE UnwindFrom(_,_)
UnwindFrom(c, j) == IF j = 0 THEN c ELSE UnwindFrom(Set(c, ret[j]), j - 1)
\* Entrypoint("") and MaxExpressions(0) are normalised when they are applied/used, so the unwound configuration is
\* compared after the same normalisation
Unwind == UnwindFrom(cfg, Len(ret)) = Cfg0
\* the configuration is the left-to-right fold of the options given: Parse(.., opts...) has no other memory
IsFold == cfg = Fold(Cfg0, given, 1)
=============================================================================
