------------------------------- MODULE MCPool -------------------------------
EXTENDS Pool
(* programs: the clone/restore/write sequences of typical parses
   P1: a sequence that changes state and fails, then an alternative that succeeds
   P2: nested sequence inside a predicate (always restored), then a successful action
   P3: a failing alternative without writes, then a success with a write *)
MCProg2 == << << <<"clone">>, <<"write", "x", 1>>, <<"restore">>, <<"clone">>, <<"write", "y", 2>>, <<"drop">> >>,
              << <<"clone">>, <<"clone">>, <<"write", "x", 3>>, <<"write", "y", 4>>, <<"restore">>, <<"restore">>, <<"clone">>, <<"drop">> >> >>
MCProg3 == MCProg2 \o << << <<"clone">>, <<"restore">>, <<"write", "y", 5>>, <<"clone">>, <<"write", "x", 6>>, <<"drop">> >> >>
MCKeys == {"x", "y"}
=============================================================================
