"""The option protocol (spec/Options.tla): TLC checks its laws on the specification (MCOptions), the harness steps
sequences of option applications (fresh values, returned "undo" values, re-used values) through a real parser object inside
generated packages (runner: runOptSeqs), and TLC validates the recorded configurations against the specification
(TraceOptions).  Model-based testing in both directions of one small, sequential state machine."""
import json, os, random, re, subprocess, hashlib
import pipeline as P

POOL = [("max", "", 0, 0), ("max", "", 5, 0), ("max", "", 7, 0), ("max", "", -1, 0),
        ("entry", "", 0, 0), ("entry", "", 1, 0), ("entry", "", 2, 0),
        ("debug", "", 0, 0), ("debug", "", 1, 0), ("memo", "", 0, 0), ("memo", "", 1, 0),
        ("allowinv", "", 0, 0), ("allowinv", "", 1, 0), ("recover", "", 0, 0), ("recover", "", 1, 0),
        ("stats", "", 1, 1), ("stats", "", 2, 2), ("stats", "", 1, 2), ("stats", "", 2, 0),
        ("gs", "k1", 1, 0), ("gs", "k1", 2, 0), ("gs", "k2", 1, 0), ("gs", "k2", 2, 0),
        ("st", "k1", 1, 0), ("st", "k1", 2, 0), ("st", "k2", 1, 0)]
STD_ONLY = {"debug", "memo", "stats"}


def pool_for(std, state):
    return [o for o in POOL if (std or o[0] not in STD_ONLY) and (state or o[0] != "st")]


def fresh(o):
    return dict(k="fresh", j=0, o=dict(k=o[0], key=o[1], a=o[2], b=o[3]))


NOOPT = dict(k="", key="", a=0, b=0)


def sequences(std, state, seed, nrand):
    pool = pool_for(std, state)
    seqs = []
    for a in pool:                                   # every option alone, then undone, then used again
        seqs.append([fresh(a)])
        seqs.append([fresh(a), dict(k="undo", j=1, o=NOOPT)])
        seqs.append([fresh(a), dict(k="undo", j=1, o=NOOPT), dict(k="reuse", j=1, o=NOOPT), dict(k="undo", j=3, o=NOOPT)])
    for a in pool:                                   # every ordered pair, unwound in reverse order
        for b in pool:
            seqs.append([fresh(a), fresh(b), dict(k="undo", j=2, o=NOOPT), dict(k="undo", j=1, o=NOOPT)])
    rng = random.Random(seed)
    for _ in range(nrand):
        s = []
        for i in range(rng.randint(3, 8)):
            r = rng.random()
            if s and r < 0.25:
                s.append(dict(k="undo", j=rng.randint(1, len(s)), o=NOOPT))
            elif s and r < 0.4:
                s.append(dict(k="reuse", j=rng.randint(1, len(s)), o=NOOPT))
            else:
                s.append(fresh(rng.choice(pool)))
        seqs.append(s)
    return seqs


GRAMMAR = """{
package main
}
Opt_A <- 'a' { return act(c, 1, []any{}) }
Opt_B <- 'b' %s
"""

MC_CFG = "SPECIFICATION Spec\nCONSTANT MaxSteps = %d\nINVARIANTS UndoRestores Idempotent LastWins Independent OnlyItsCell Unwind IsFold\nCHECK_DEADLOCK FALSE\n"


def design(max_steps):
    r = P.run_tlc("MCOptions", MC_CFG % max_steps, {}, workers=8, timeout=1500)
    ok = "No error has been found" in r["out"]
    return dict(ok=ok, states=r.get("distinct", 0), transitions=r.get("generated", 0), max_steps=max_steps,
                laws=["UndoRestores", "Idempotent", "LastWins", "Independent", "OnlyItsCell", "Unwind", "IsFold"],
                tail="" if ok else r["out"][-1500:])


def check(run, tier, seed):
    """returns (violations as dicts, coverage dict); machinery failures raise Inconclusive"""
    pigeon = P.build_pigeon()
    nrand = 500 if tier == "quick" else 20000
    variants = []
    # standard parser (state store present), -optimize-parser without state blocks (no state store), -optimize-parser with one
    for vi, (flags, withstate) in enumerate([([], True), (["-optimize-parser"], False), (["-optimize-parser"], True), (["-optimize-basic-latin", "-nolint"], True)]):
        body = "#{ return st(c, 2, []any{}) }" if withstate else "{ return act(c, 2, []any{}) }"

        class G:            # the minimum of a group that Variant needs
            tags = {"state"} if withstate else set()
        v = P.Variant(9000 + vi, "optproto%d" % vi, [G()], flags, peg_text=GRAMMAR % body)
        if not (v.generate(pigeon) and v.build()):
            raise P.Inconclusive("option protocol: variant %s does not build: %s" % (flags, (v.gen_err or v.build_err)[-800:]))
        variants.append((v, not v.optimized, v.state_on))
    viol, cov = [], dict(sequences=0, steps=0, variants=len(variants), states=0)
    for v, std, state in variants:
        seqs = sequences(std, state, seed + v.vi, nrand)
        rq, ob = os.path.join(v.dir, "optreq.json"), os.path.join(v.dir, "optobs.ndjson")
        with open(rq, "w") as f:
            json.dump(dict(groups=[], inputs=[], options=[], plan=[], optseqs=seqs, optnames=["Opt_A", "Opt_B"], variant=v.vi), f)
        if os.path.exists(ob):
            os.remove(ob)
        p = subprocess.run([v.bin, rq, ob], stdout=subprocess.DEVNULL, stderr=subprocess.PIPE, env=P.ENV, timeout=600)
        if p.returncode != 0:
            raise P.Inconclusive("option protocol: the runner failed: " + p.stderr.decode(errors="replace")[-800:])
        r = P.run_tlc("TraceOptions", "SPECIFICATION Spec\nINVARIANT Accepted\nCHECK_DEADLOCK FALSE\n",
                      {"optobs.ndjson": ("path", ob), "optcase.json": ("text", json.dumps(dict(std=std, state=state)))}, workers=1, timeout=1500, heap="4g")
        done = None
        for ln in r["out"].splitlines():
            m = re.search(r'"(DIVERGE|DONE) (.*)"$', ln)
            if not m:
                continue
            js = json.loads(m.group(2).replace('\\"', '"'))
            if m.group(1) == "DONE":
                done = js
            else:
                s = seqs[js["si"] - 1]
                obs = None
                with open(ob) as f:
                    for i, l2 in enumerate(f):
                        if i == js["si"] - 1:
                            obs = json.loads(l2)
                viol.append(dict(flags=v.flags, steps=s, divergence=js, observed=obs))
        if done is None or done["n"] != len(seqs):
            raise P.Inconclusive("TraceOptions did not consume every sequence:\n" + r["out"][-2000:])
        cov["sequences"] += len(seqs)
        cov["steps"] += sum(len(s) for s in seqs)
        cov["states"] += r.get("distinct", 0)
    return viol, cov


def report(run, tier, seed, with_design=True):
    """run the protocol check inside a property's check: violations are reported through run.violation"""
    viol, cov = check(run, tier, seed)
    if with_design:
        cov["design"] = design(3 if tier == "quick" else 4)
        if not cov["design"]["ok"]:
            run.notes.append("MCOptions: TLC reports a violated law on the specification itself: " + cov["design"]["tail"][-300:])
    rd = os.path.join(P.VERIF, "replays", run.pid)
    os.makedirs(rd, exist_ok=True)
    for d in viol[:10]:
        h = hashlib.sha1(json.dumps(d, sort_keys=True).encode()).hexdigest()[:10]
        path = os.path.join(rd, "options_%s.json" % h)
        with open(path, "w") as f:
            json.dump(dict(property=run.pid, kind="option-protocol", **d), f, indent=1)
        run.violation(path, "option protocol: after step %s of the sequence the parser's configuration is not what Options.tla prescribes (%s)" % (d["divergence"].get("at"), d["divergence"].get("df")))
    run.cov["option_protocol"] = cov
    return viol
