"""Runtime checks: families -> real parsers -> T1 validation against PegRef -> verdict + evidence."""
import json, os, sys, time, hashlib
import pipeline as P
from peg import dump_groups

DEFAULT_OPT = dict(memo=False, debug=False, stats=True, maxexpr=0, allowinv=False, recover=True, fname="f",
                   errblks=[], panicblk=0, entry="", entryrule=1, initx=-1, initg=0, via="", rev=False, initcl=-1, sharestats=False, samemsg=False, sandwich=False,
                   decoy=False)      # decoy: every option is given twice, first with another value (the later one decides)


def opt(**kw):
    o = dict(DEFAULT_OPT)
    o.update(kw)
    return o


FLAGSETS_8 = [[], ["-optimize-parser"], ["-optimize-basic-latin"], ["-nolint"],
              ["-optimize-parser", "-optimize-basic-latin"], ["-optimize-parser", "-nolint"],
              ["-optimize-basic-latin", "-nolint"], ["-optimize-parser", "-optimize-basic-latin", "-nolint"]]
FLAGSETS_2 = [[], ["-optimize-parser", "-optimize-basic-latin", "-nolint"]]


def pack_groups(groups, size):
    """packs homogeneous in the features that select a template variant"""
    buckets = {}
    for g in groups:
        key = ("state" in g.tags, "lr" in g.tags)
        buckets.setdefault(key, []).append(g)
    packs = []
    for key in sorted(buckets):
        b = buckets[key]
        for i in range(0, len(b), size):
            packs.append(b[i:i + size])
    return packs


class Run:
    def __init__(self, pid, tier, seed):
        self.pid, self.tier, self.seed = pid, tier, seed
        self.t0 = time.time()
        self.violations = []      # dicts
        self.known = []           # strings already printed
        self.notes = []
        self.cov = {}
        self.wit = {}
        self.kf = []
        import shutil
        shutil.rmtree(os.path.join(P.VERIF, "replays", pid), ignore_errors=True)

    # ---- the common loop ----------------------------------------------------------------
    def add_witnesses(self, fids, groups, inputs, options):
        """append the witness case of each active known finding; they are judged strictly (kf off)"""
        import findings
        self.wit = {}          # gi -> (fid, plan entries, accepted labels)
        for fid in fids:
            if fid not in findings.WITNESS:
                continue
            g, ins, ov, labels = findings.WITNESS[fid](len(groups) + 1)
            g.maydiverge = False
            groups.append(g)
            o = dict(DEFAULT_OPT)
            o.update(ov)
            options.append(o)
            plan = []
            for i in ins:
                inputs.append(i)
                plan.append((len(inputs) - 1, len(options) - 1))
            self.wit[g.gi] = (fid, plan, labels)
        self.kf = list(fids)

    def execute(self, groups, inputs, options, plan_for, flagsets, cmp=None, pack_size=300, gen_flags_for=None,
                timeout_ms=5000, shards=12, classify=None, lower=None, uclass=None, noentry_oi=None):
        """plan_for(g) -> list of (input index, option index).  Returns (divergences, totals, variants)."""
        pigeon = P.build_pigeon()
        wit = getattr(self, "wit", {})
        user_plan_for = plan_for
        plan_for = lambda g: wit[g.gi][1] if g.gi in wit else user_plan_for(g)
        for i, g in enumerate(groups):
            assert g.gi == i + 1, "group ids must be 1..N"
        packs = pack_groups(groups, pack_size)
        variants = []
        for pi, pk in enumerate(packs):
            for fi, fl in enumerate(flagsets):
                extra = list(gen_flags_for(pk)) if gen_flags_for else []
                if "lr" in pk[0].tags and "-support-left-recursion" not in fl and "-support-left-recursion" not in extra:
                    extra.append("-support-left-recursion")
                variants.append(P.Variant(len(variants) + 1, "p%df%d" % (pi, fi), pk, list(fl) + list(extra)))

        build_div = []

        def prep(v):
            if v.generate(pigeon) and v.build():
                return "ok"
            if not getattr(self, "bisect_build_failures", False):
                return "gen" if v.gen_rc != 0 else "build"
            # bisect: a pack that cannot be generated/compiled is split into single-group packages; the groups that fail alone
            # are reported (the generated code of an accepted grammar must compile) and the pack is rebuilt without them
            good = []
            for g in list(v.groups):
                flags1 = [f for f in v.flags]
                if "-alternate-entrypoints" in flags1:
                    ix = flags1.index("-alternate-entrypoints")
                    names = [nm for nm in flags1[ix + 1].split(",") if nm.startswith("G%d_" % g.gi)]
                    flags1[ix + 1] = ",".join(names) if names else g.sname()
                v1 = P.Variant(v.vi * 100000 + g.gi, v.name + "_g%d" % g.gi, [g], flags1)
                if v1.generate(pigeon) and v1.build():
                    good.append(g)
                else:
                    build_div.append(dict(k=0, vi=v.vi, gi=g.gi, ii=1, oi=1, df="generated-code-does-not-build", at=0, haz=[],
                                          detail=(v1.gen_err if v1.gen_rc != 0 else v1.build_err)[-600:]))
                import shutil as _sh
                _sh.rmtree(v1.dir, ignore_errors=True)
            if not good:
                return "empty"
            if "-alternate-entrypoints" in v.flags:
                ix = v.flags.index("-alternate-entrypoints")
                keep = {"G%d_" % g.gi for g in good}
                v.flags[ix + 1] = ",".join(nm for nm in v.flags[ix + 1].split(",") if any(nm.startswith(k_) for k_ in keep))
            v.groups = good
            if v.generate(pigeon) and v.build():
                return "ok"
            return "gen" if v.gen_rc != 0 else "build"
        st = P.parallel(prep, variants)
        bad = [(v, s) for v, s in zip(variants, st) if s not in ("ok", "empty")]
        if bad:
            v, s = bad[0]
            raise P.Inconclusive("%s failed for variant %s %s:\n%s" % (s, v.name, v.flags, v.gen_err if s == "gen" else v.build_err))
        variants = [v for v, s in zip(variants, st) if s == "ok"]
        self.build_div = build_div
        # the leftRecursive / leader flags the generator decided (needed by the design model M, never by a verdict)
        import re as _re
        for v in variants:
            if "-support-left-recursion" not in v.flags or any(getattr(g, "lrflags", None) for g in v.groups):
                continue
            try:
                src = open(os.path.join(v.dir, "g.go")).read()
            except OSError:
                continue
            names = _re.findall(r'\n\t\t\{\n\t\t\tname:\s+"(\w+)",', src)
            fl = _re.findall(r'\n\t\t\tleader:\s+(true|false),\n\t\t\tleftRecursive:\s+(true|false),', src)
            if len(names) != len(fl):
                continue
            tab = {nm: [b == "true", a == "true"] for nm, (a, b) in zip(names, fl)}      # [leftRecursive, leader]
            for g in v.groups:
                fr = [tab.get(g.rname(i + 1)) for i in range(len(g.rules))]
                if all(x is not None for x in fr):
                    g.lrflags = fr

        self.plans = {}
        # option lists with overridden entries ("the options are applied from left to right"): for one parse in six the runner
        # gives every option twice, first with another value; the reference outcome is that of the later values alone
        twin = {}
        if getattr(self, "decoys", False):
            for oi in range(len(options)):
                if not options[oi]["debug"] and not options[oi].get("sharestats"):
                    options.append(dict(options[oi], decoy=True))
                    twin[oi] = len(options) - 1
        # "a call leaves nothing behind": for one parse in seven the runner also parses the second half of the input before the
        # call and again right after it (option sandwich); the two probes must agree (TraceT1: earlier-result-changed)
        sand = {}
        if getattr(self, "decoys", False):
            for oi in range(len(options)):
                o_ = options[oi]
                if not o_["debug"] and not o_.get("sharestats") and not o_.get("decoy") and o_.get("via", "") == "" and not o_.get("panicblk"):
                    options.append(dict(o_, sandwich=True))
                    sand[oi] = len(options) - 1

        def run(v):
            plan = []
            for gx, g in enumerate(v.groups):
                for (ii, oi) in plan_for(g):
                    if oi in twin and (g.gi * 31 + ii * 7 + oi) % 6 == 0:
                        oi = twin[oi]
                    elif oi in sand and (g.gi * 17 + ii * 5 + oi) % 7 == 3:
                        oi = sand[oi]
                    if v.optimized and (options[oi]["memo"] or options[oi]["debug"]):
                        continue
                    if not v.state_on and options[oi].get("initx", -1) >= 0:
                        continue          # InitState does not exist in a parser without the state store
                    plan.append([gx, ii, oi])
                if gx == 0 and noentry_oi is not None and not g.maydiverge and g.gi not in wit:
                    # the first rule of the generated file is this group's entry: parse WITHOUT the Entrypoint option
                    plan += [[0, ii, noentry_oi] for ii in sorted({p_[0] for p_ in plan_for(g)})]
            self.plans[v.vi] = plan
            ndbg = sum(1 for p_ in plan if options[p_[2]]["debug"])
            dbg = os.path.join(v.dir, "debug.txt") if ndbg and getattr(self, "keep_debug", False) else None
            # only a bounded sample of the Debug traces is kept on disk (a trace can be thousands of lines)
            return v.run(inputs, options, plan, timeout_ms=timeout_ms, debug_out=dbg, debug_keep=(ndbg // 2500 + 1) if ndbg > 2500 else 0)
        obs = P.parallel(run, variants)
        self.obs = obs
        st = dict(parses=0, matched=0, with_errors=0, no_match=0, budget=0, panic_escaped=0, with_events=0, not_ok_status=0)
        for pth in obs:
            with open(pth) as f:
                for ln in f:
                    st["parses"] += 1
                    st["matched"] += '"ok": true' in ln or '"ok":true' in ln
                    st["with_errors"] += '"errs":[{' in ln or '"errs": [{' in ln
                    st["no_match"] += '"nomatch":{"is":true' in ln
                    st["budget"] += '"budget":true' in ln
                    st["panic_escaped"] += '"escaped":""' not in ln and '"escaped": ""' not in ln
                    st["with_events"] += '"events":[{' in ln
                    st["not_ok_status"] += '"status":"ok"' not in ln and '"status": "ok"' not in ln
        self.stats = st
        gp = os.path.join(P.workdir(), "groups.ndjson")
        dump_groups(groups, gp)
        import findings
        tcase = dict(inputs=inputs, options=options, lower=lower or [[0, 0]], uclass=uclass or [[0]],
                     cmp=dict(dict(store=True, errs=True, ctx=False, norm=False), **(cmp or {})),
                     kf=(list(getattr(self, "kf", [])) + [f["id"] for f in findings.active() if f["id"] == "F35"]) or ["-"], strict=sorted(wit) or [0])
        self.gp, self.tcase = gp, tcase
        div, tot = P.validate_t1(gp, tcase, obs, shards=shards)
        # witnesses of known findings: a divergence with the finding's symptom re-confirms it
        import findings
        confirmed, rest = set(), []
        for d in div:
            w = wit.get(d["gi"])
            if w and d["df"] in w[2]:
                confirmed.add(w[0])
            else:
                rest.append(d)
        rest = rest + [d for d in build_div if d["gi"] not in wit]
        for gi, w in wit.items():
            if w[0] in confirmed:
                k = "%s: %s" % (w[0], findings.what(w[0]))
                if k not in self.known:
                    self.known.append(k)
            else:
                self.notes.append("known finding %s: its witness no longer fails on this tree (entry can be retired)" % w[0])
        div = rest
        self.variants, self.groups, self.inputs, self.options = variants, groups, inputs, options
        return div, tot

    # ---- verdicts ---------------------------------------------------------------------------
    def replay_path(self, d):
        rd = os.path.join(P.VERIF, "replays", self.pid)
        os.makedirs(rd, exist_ok=True)
        v = next((x for x in self.variants if x.vi == d["vi"]), self.variants[0])
        g = self.groups[d["gi"] - 1]
        rec = dict(property=self.pid, divergence=d, flags=v.flags, grammar=g.text(), group=g.to_case(),
                   input=self.inputs[d["ii"] - 1], input_text=bytes(self.inputs[d["ii"] - 1]).decode(errors="replace"),
                   options=self.options[d["oi"] - 1], seed=self.seed, tier=self.tier, detail=d.get("detail", ""))
        tc = getattr(self, "tcase", None) or {}
        if tc.get("lower") not in (None, [[0, 0]]):
            rec["lower"], rec["uclass"] = tc["lower"], tc.get("uclass", [[0]])
        h = hashlib.sha1(json.dumps(rec, sort_keys=True).encode()).hexdigest()[:10]
        path = os.path.join(rd, "%s_%s.json" % (d["df"], h))
        with open(path, "w") as f:
            json.dump(rec, f, indent=1)
        return path

    def violation(self, path, what=""):
        self.violations.append(dict(replay=path, what=what))

    def finish(self, level, coverage, assumptions=()):
        ev = dict(property_id=self.pid, tier=self.tier, seed=self.seed, level=level, coverage=coverage,
                  assumptions=list(assumptions), wall_s=round(time.time() - self.t0, 1), violations=len(self.violations),
                  notes=self.notes, known_findings=self.known)
        evdir = os.environ.get("VERIF_EVIDENCE_DIR") or os.path.join(P.VERIF, "evidence")
        os.makedirs(evdir, exist_ok=True)
        with open(os.path.join(evdir, self.pid + ".json"), "w") as f:
            json.dump(ev, f, indent=1)
        for k in self.known:
            print("KNOWN-FINDING: property=%s %s" % (self.pid, k))
        seen = set()
        for v in self.violations[:20]:
            if v["replay"] not in seen:
                seen.add(v["replay"])
                print("VIOLATION property=%s replay=%s %s" % (self.pid, v["replay"], v["what"]))
        return 1 if self.violations else 0


def load_obs(path, keep=None):
    out = {}
    with open(path) as f:
        for ln in f:
            o = json.loads(ln)
            out[(o["gi"], o["ii"], o["oi"])] = o if keep is None else {f_: o.get(f_) for f_ in keep}
    return out


def pairwise(run, pairs, fields=("status", "ok", "end", "val", "errs", "nomatch", "escaped", "store", "g"), optmap=None, only=None):
    """real-vs-real: for each (variant index a, variant index b[, option map]) the same case must give equal observations.
    Returns divergence records shaped like T1's."""
    div, n = [], 0
    cache = {}
    last = {}
    for i, (a, b) in enumerate(pairs):
        last[a] = last[b] = i
    keep = set(fields) | {"k"}
    for i, (a, b) in enumerate(pairs):
        for x in [y for y in cache if last[y] < i]:      # a thorough run does not fit in memory as a whole
            del cache[x]
        for x in (a, b):
            if x not in cache:
                cache[x] = load_obs(run.obs[x], keep if only is None else None)
        oa, ob = cache[a], cache[b]
        for key, o1 in oa.items():
            k2 = key if optmap is None else (key[0], key[1], optmap.get(key[2]))
            if k2[2] is None or k2 not in ob:
                continue
            if only and not only(o1):
                continue
            o2 = ob[k2]
            n += 1
            for fld in fields:
                if o1.get(fld) != o2.get(fld):
                    div.append(dict(k=o1["k"], vi=run.variants[b].vi, gi=key[0], ii=key[1], oi=k2[2], df="pair-" + fld, at=run.variants[a].vi, haz=[]))
                    break
    return div, n


def t2_sample(run, groups_path, tcase, max_traces=3000, asbuilt=None, eligible=None):
    """step-level validation (T2) of the Debug traces recorded by the variants that ran with Debug(true).
    A rejection is model drift (a note), never a verdict."""
    import t2
    traces = []
    for v in run.variants:
        dbg = os.path.join(v.dir, "debug.txt")
        if not os.path.exists(dbg):
            continue
        plan = run.plans[v.vi]
        wanted = {}
        for k, (gx, ii, oi) in enumerate(plan):
            g = v.groups[gx]
            if run.options[oi]["debug"] and (eligible is None or eligible(g)):
                wanted[k + 1] = (g.gi, ii + 1, oi + 1)
        if len(wanted) > max_traces:
            keys = sorted(wanted)[:: max(1, len(wanted) // max_traces)][:max_traces]
            wanted = {k: wanted[k] for k in keys}
        for t in t2.parse_debug(dbg, plan, v, set(wanted)):
            gi, ii, oi = wanted[t["k"]]
            traces.append(dict(gi=gi, ii=ii, oi=oi, ok=t["ok"], evs=t["evs"]))
        try:
            os.remove(dbg)
        except OSError:
            pass
        if len(traces) >= max_traces:
            break
    tc = dict(tcase)
    tc["asbuilt"] = asbuilt or dict(stalectx=True, memolabel=True, freehit=True, acccap=0)
    rej, tot = t2.validate(groups_path, tc, traces[:max_traces])
    return rej, tot


def mc_machine(groups, inputs, options, plan, asbuilt, liveness=False, workers=16, timeout=3000):
    """exhaustive TLC run of the design model M (PegMachine) over the cases of `plan` ([gi, ii, oi], 1-based):
    step invariants in every state, refinement M.terminal = R at every terminal state"""
    import tempfile
    from peg import dump_groups
    d = tempfile.mkdtemp(prefix="mcm-", dir=P.workdir())
    gp = os.path.join(d, "groups.ndjson")
    dump_groups(groups, gp)
    tc = dict(inputs=inputs, options=options, lower=[[201, 233]], uclass=[[0]], plan=plan, asbuilt=asbuilt)
    cfg = "SPECIFICATION Spec\nINVARIANTS PosIsPure StepChecks BudgetBound Refinement MemoFunctional\nCHECK_DEADLOCK FALSE\n"
    if liveness:
        cfg += "PROPERTY Termination\n"
    r = P.run_tlc("MCMachine", cfg, {"groups.ndjson": ("path", gp), "tcase.json": ("text", json.dumps(tc))}, workers=workers, timeout=timeout, heap="24g")
    import re
    res = dict(cases=len(plan), states=r.get("distinct", 0), transitions=r.get("generated", 0), ok="No error has been found" in r["out"])
    m = re.search(r"Invariant (\w+) is violated", r["out"])
    if m:
        res["violated"] = m.group(1)
    if re.search(r"Temporal propert(y|ies) .*violated", r["out"]):
        res["violated"] = "Termination"
    if not res["ok"] and "violated" not in res:
        i = r["out"].find("Error:")
        raise P.Inconclusive("MCMachine did not complete:\n" + r["out"][max(i, 0):max(i, 0) + 2500])
    res["tail"] = r["out"][-1500:] if not res["ok"] else ""
    if not res["ok"]:
        i = r["out"].find("Error:")
        res["tail"] = r["out"][i:i + 3000]
    return res
