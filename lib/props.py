"""Per-property checks (DESIGN.md section 3)."""
import json, os, random, shutil
import pipeline as P
import families as F
from rt import Run, opt, FLAGSETS_8, FLAGSETS_2


def renumber(groups):
    for i, g in enumerate(groups):
        if g.gi != i + 1:
            raise ValueError("groups must be created with consecutive ids")
    return groups


def sample_cases(run, n=3):
    out = []
    for g in run.groups[:: max(1, len(run.groups) // n)][:n]:
        out.append(dict(grammar=g.text(), inputs=[bytes(i).decode(errors="replace") for i in run.inputs[:4]]))
    return out


def std_finish(run, div, tot, rule, classify=None, level="model_checking", extra=None):
    nviol = 0
    ksamples, kcount = {}, {}
    for d in div:
        k = classify(run, d) if classify else None
        if k == "-":
            continue
        if k:
            if k not in run.known:
                run.known.append(k)
            ksamples.setdefault(k.split(":")[0], [])
            if len(ksamples[k.split(":")[0]]) < 3:
                g = run.groups[d["gi"] - 1]
                ksamples[k.split(":")[0]].append(dict(grammar=g.text(), input=run.inputs[d["ii"] - 1], options=run.options[d["oi"] - 1], df=d["df"]))
            kcount[k.split(":")[0]] = kcount.get(k.split(":")[0], 0) + 1
            continue
        nviol += 1
        if nviol <= 25:
            run.violation(run.replay_path(d), "df=%s gi=%d ii=%d oi=%d vi=%d" % (d["df"], d["gi"], d["ii"], d["oi"], d["vi"]))
    cov = dict(states=tot["states"], transitions=tot["transitions"], traces_validated_against_impl=tot["n"],
               evaluations=tot["n"], distinct_nontrivial=len(run.groups), rule=rule, samples=sample_cases(run),
               groups=len(run.groups), variants=len(run.variants), divergences=len(div), violating_parses=nviol, suppressed_by_known_finding=kcount, known_finding_samples=ksamples,
               trusted_base=["Go toolchain", "TLC 1.8.0", "the harness printer/runner (lib/peg.py, runner/*.go)"])
    n35 = sum(1 for h in tot.get("kfhits", []) if h.get("df") == "kf-F35")
    if n35:
        import findings as _f
        k35 = "F35: " + _f.what("F35")
        if k35 not in run.known:
            run.known.append(k35)
        kcount["F35"] = kcount.get("F35", 0) + n35
    cov["observation_classes"] = getattr(run, "stats", {})
    cov.update(run.cov)
    if "design_model" in run.cov:
        cov["states"] += run.cov["design_model"].get("states", 0)
        cov["transitions"] += run.cov["design_model"].get("transitions", 0)
    if extra:
        cov.update(extra)
    return run.finish(level, cov, ["PegRef.tla is the independent definition of the parse result; unicode folding restricted to the model alphabet"])


ASBUILT = dict(stalectx=True, memolabel=True, freehit=True, acccap=0)     # M as the code is built (known findings F1, F2, F3)


def machine_eligible(g):
    return "lr" not in g.tags or bool(getattr(g, "lrflags", None))


def design_level(run, groups, inputs, options, ois, max_groups, asbuilt=None, liveness=False, inputs_idx=None, label="design_model", subset=None):
    """exhaustive TLC run of the design model M over a bounded sub-family; results go to the evidence (never a verdict)"""
    from rt import mc_machine
    gs = [g for g in (subset if subset is not None else groups) if machine_eligible(g) and g.gi not in run.wit][:max_groups]
    idx = inputs_idx if inputs_idx is not None else range(len(inputs))
    plan = []
    options = list(options) + [opt(maxexpr=40)]       # grammars that may diverge are explored under a small budget
    for g in gs:
        for ii in idx:
            for oi in (ois(g) if not g.maydiverge or liveness else [len(options) - 1]):
                plan.append([g.gi, ii + 1, oi + 1])
    res = mc_machine(groups, inputs, options, plan, asbuilt or ASBUILT, liveness=liveness)
    run.cov[label] = {k: res[k] for k in res if k != "tail"}
    if not res["ok"]:
        run.notes.append("%s: TLC reports %s on the design model M (a model counterexample alone is never a verdict): %s" % (label, res.get("violated"), res["tail"][-300:]))
    return res


def t2_bind(run, max_traces=2000, asbuilt=None):
    """T2: the Debug traces of the real runs of this check are validated step by step against M"""
    from rt import t2_sample
    rej, tot = t2_sample(run, run.gp, run.tcase, max_traces=max_traces, asbuilt=asbuilt or ASBUILT, eligible=machine_eligible)
    run.cov["t2"] = dict(traces=tot["n"], lines=tot.get("lines", 0), states=tot["states"], rejected=len(rej), invariants_violated=tot.get("invariants_violated", []))
    if rej:
        run.notes.append("model drift: %d of %d Debug traces are not behaviours of M (first: %s); step invariants not evaluated on them; no verdict depends on it" % (len(rej), tot["n"], rej[0]))
    if tot.get("invariants_violated"):
        run.notes.append("T2: a step invariant of M was violated on a real trace: %s" % tot["invariants_violated"])
    return rej, tot


# ------------------------------------------------------------------------------------------
def check_C01(tier, seed, replay=None):
    run = Run("C01", tier, seed)
    run.decoys = True          # one parse in six gets every option twice (an overridden value first)
    if tier == "quick":
        trees = F.exhaustive(1, F.LEAVES_FULL)
        nrand, maxlen = 600, 3
        flagsets = FLAGSETS_8
    else:
        trees = F.exhaustive(2, F.LEAVES_SMALL)
        nrand, maxlen = 3000, 3
        flagsets = FLAGSETS_8
    # label scopes: a name bound again inside & / ! / ? / * does not replace the outer binding the action receives
    shl = [("lit", (F.A,), False), ("cls", (F.A, F.B), (), False, False), ("any",)]
    trees = trees + [("shadowp", pk, a, b, c, d_) for pk in ("and", "not") for a in shl[:2] for b in shl for c in (shl[0], ("lit", (), False)) for d_ in shl[1:]]
    groups = F.groups_from_trees(trees)
    cfg = F.RandCfg(depth=4, maxrules=3, safe_rep=False)
    groups += F.random_groups(seed, nrand, cfg, gi0=len(groups) + 1)
    inputs = F.all_inputs([F.A, F.B, F.UA], maxlen)
    nbase = len(inputs)
    recin = add_rec(groups, inputs, nrand // 8, seed, alphabet=((F.A,), (F.B,), (F.UA,)), safe_rep=False)
    options = [opt(), opt(maxexpr=3000), opt(entry="-"), opt(debug=True), opt(via="reader"), opt(via="file"), opt(entry="No_such_rule")]
    allin = list(range(nbase))
    run.keep_debug = True
    # terminals and input of several bytes per rune (a rune is one step whatever its length), ignore-case beyond the letters
    ARROW = 0x2192
    u8leaves = F.LEAVES_UTF8 + F.LEAVES_FOLD + [("lit", (ARROW,), False), ("lit", (ARROW, F.A), False), ("lit", (F.EACUTE, F.A), False), ("cls", (ARROW,), (), True, False)]
    u8 = F.groups_from_trees(F.exhaustive(1, u8leaves[:12] + u8leaves[-4:]), gi0=len(groups) + 1)
    u8 += F.random_groups(seed + 9, nrand // 4, F.RandCfg(depth=3, maxrules=2, leaves=u8leaves, safe_rep=False), gi0=len(groups) + len(u8) + 1)
    for g in u8:
        g.tags.add("u8")
    groups += u8
    u8first = len(inputs)
    inputs += F.all_inputs([F.utf8(ARROW), F.utf8(F.EACUTE), [F.A], F.utf8(F.RN), F.utf8(F.RNL), F.utf8(F.EURO), [F.NL]], 3)
    u8in = list(range(u8first, len(inputs)))

    def plan_for(g):
        oi = 1 if g.maydiverge or "rec" in g.tags else 0          # recursive groups: always under the budget (bounded reference evaluation)
        if "u8" in g.tags:
            return [(ii, oi) for ii in u8in]
        pl = [(ii, oi) for ii in allin]
        if not g.maydiverge and g.gi % 4 == 0:
            pl += [(ii, 3) for ii in allin[::3]]          # Debug(true) runs: the T2 traces
        if not g.maydiverge and g.gi % 5 == 1:
            pl += [(ii, 4) for ii in allin[::2]] + [(ii, 5) for ii in allin[::7]]      # through ParseReader and ParseFile
        if g.gi % 7 == 2:
            pl += [(ii, 6) for ii in allin[:3]]                                          # an Entrypoint that does not exist
        if "rec" in g.tags:
            pl += [(ii, oi) for ii in recin]
        return pl
    div, tot = run.execute(groups, inputs, options, plan_for, flagsets, pack_size=100, noentry_oi=2, lower=F.FOLD_PAIRS)
    design_level(run, groups, inputs, options, lambda g: [1] if g.maydiverge else [0], 192 if tier == "quick" else 100000, inputs_idx=allin,
                 subset=[g for g in groups if "u8" not in g.tags])
    t2_bind(run, 1500 if tier == "quick" else 20000)
    # "for every generation-flag set": the same grammars through -optimize-grammar (values compared after normalisation)
    run_o = Run("C01", tier, seed)
    sub = [g for g in groups if g.gi > len(trees)][: 300 if tier == "quick" else 2000]
    sub2 = F.random_groups(seed, len(sub), cfg, gi0=1)
    sub2 += c09_idiom_groups(seed + 21, 150 if tier == "quick" else 1000, len(sub2) + 1)      # leaf rules used several times by one rule
    inputs = inputs[:u8first] + [[random.Random(seed + k_).choice([F.A, F.B, 99, 100, 101, 102, F.UA, 66, 95, 36, 48, 49]) for _ in range(1 + k_ % 4)] for k_ in range(120)]
    allin = list(range(len(inputs)))
    d_o, tot_o = run_o.execute(sub2, inputs, options, lambda g: [(ii, 1 if g.maydiverge else 0) for ii in allin], [["-optimize-grammar"], ["-optimize-grammar", "-optimize-parser"]],
                               cmp=dict(norm=True, errs=False), gen_flags_for=lambda pk: ["-alternate-entrypoints", ",".join(g.sname() for g in pk)])
    for d in d_o:
        run.violation(run_o.replay_path(d), "-optimize-grammar: df=%s gi=%d ii=%d" % (d["df"], d["gi"], d["ii"]))
    tot = dict(n=tot["n"] + tot_o["n"], states=tot["states"] + tot_o["states"], transitions=tot["transitions"] + tot_o["transitions"])
    # "classes honour the i and ^ flags": the character-class family (every single member / range over the case-boundary
    # alphabet, every Unicode class name, random mixes; all 128 Basic Latin runes, non-ASCII runes, ill-formed bytes) against
    # the meaning of a class in PegRef, with the case forms and class members taken from Go's unicode package
    run_c = Run("C01", tier, seed)
    cl = class_runs(run_c, tier, seed, [[], ["-optimize-parser", "-optimize-basic-latin"]], nrand=200 if tier == "quick" else 1500)
    d_c, tot_c = class_meaning(run_c, tier, seed, *cl, which=range(len(cl[4])))
    for d in d_c:
        g_ = cl[1][d["gi"] - 1]
        run.violation(run_c.replay_path(d), "class %s input %s: the parser does not decide like the meaning of the class (%s)" % (
            bytes(g_.N(g_.rules[0])["want"]).decode(), cl[2][d["ii"] - 1], d["df"]))
    run.cov["character_classes"] = dict(classes=len(cl[0]), decisions_validated=tot_c["n"], unicode_classes=len(cl[5]))
    tot = dict(n=tot["n"] + tot_c["n"], states=tot["states"] + tot_c["states"], transitions=tot["transitions"] + tot_c["transitions"])
    return std_finish(run, div, tot, "E(d) exhaustive single-rule grammars + random multi-rule grammars x all inputs up to the bound x flag sets; a group is distinct by construction (enumeration) and non-trivial when it has at least one operator")


# ------------------------------------------------------------------------------------------
def common_prefix_groups(rngp, n, gi0, preds=True):
    """alternatives with a common prefix RULE, so that with Memoize the second alternative resumes after a cache hit; what
    follows the hit is a newline, a multi-byte rune, or the end; every block that runs afterwards sees its position"""
    from peg import Gram
    out = []
    for k_ in range(n):
        g = Gram(gi0 + k_)
        key = g.action(g.un("plus", g.cls((F.A, F.EACUTE), (), False, False))) if rngp.random() < 0.7 else g.seq([g.lit([F.A]), g.un("opt", g.lit([F.NL]))])
        alts = []
        for _a in range(rngp.randint(2, 3)):
            suf = rngp.choice([g.lit([F.NL]), g.lit([F.A]), g.cls((F.EACUTE, F.NL), (), False, False), g.lit([F.NL, F.A]), g.any(), g.lit([F.EURO]), g.un("not", g.any())])
            tail = g.action(g.un("star", g.action(g.any())))
            alts.append(g.action(g.seq([g.label(g.ref(2)), suf] + ([g.pred(False, "true")] if preds else []) + [g.label(tail)])))
        g.rules = [g.choice(alts), key]
        g.disp = ["", ""]
        g.compute_args()
        g.maydiverge = g.may_diverge()
        out.append(g)
    return out


def check_C02(tier, seed, replay=None):
    """code blocks observe the true match context: every event (also on abandoned alternatives) is compared"""
    import findings
    run = Run("C02", tier, seed)
    run.decoys = True          # one parse in six gets every option twice (an overridden value first)
    R = F.RUNES
    if tier == "quick":
        trees = F.exhaustive(1, F.LEAVES_UTF8 + F.PRED_LEAVES + [("state", "set", "x", 1)])
        nrand, maxlen = 500, 3
        flagsets = FLAGSETS_2 + [["-optimize-parser"]]
        alpha = [R["a"], R["nl"], R["eacute"], R["euro"]]
    else:
        trees = F.exhaustive(1, F.LEAVES_UTF8 + F.PRED_LEAVES + [("state", "set", "x", 1)], ternary=False)
        nrand, maxlen = 3000, 3
        flagsets = FLAGSETS_2 + [["-optimize-parser"]]
        alpha = [R["a"], R["b"], R["nl"], R["eacute"], R["euro"]]
    # every expression of the family is wrapped so that a labelled value reaches a block
    trees = [("lact", t, ("lit", (), False)) for t in trees] + trees
    sh = [("lit", (F.A,), False), ("cls", (F.A, F.B), (), False, False), ("any",), ("opt", ("lit", (F.A,), False))]
    # a code predicate's boolean alone decides the match, also when the block returns an error with it
    trees += [("seq", ("perr", neg, op), t) for neg in (False, True) for op in ("true", "false") for t in sh] + \
             [("choice", ("seq", ("perr", neg, op), sh[0]), sh[2]) for neg in (False, True) for op in ("true", "false")]
    trees += [("shadow", a, b, c) for a in sh for b in sh for c in sh[:2]] + \
             [("shadow", a, b, ("lit", (), False), ("pred", False, "true")) for a in sh for b in sh]
    trees += [("shadowp", pk, a, b, c, d_) for pk in ("and", "not") for a in sh[:2] for b in sh[:3] for c in (sh[0], ("lit", (), False)) for d_ in sh[1:3]]
    groups = F.groups_from_trees(trees)
    cfg = F.RandCfg(depth=4, maxrules=3, leaves=F.LEAVES_UTF8 + F.LEAVES_FULL, preds=True, state=True, cloner=True, errs=0.25)
    groups += F.random_groups(seed, nrand // 2, cfg, gi0=len(groups) + 1)
    # the same label name in nested scopes (shadowing), labels directly over action groups
    cfg2 = F.RandCfg(depth=4, maxrules=2, leaves=F.LEAVES_FULL, preds=True, labpool=["k", "v", "w"])
    groups += F.random_groups(seed + 11, nrand // 2, cfg2, gi0=len(groups) + 1)
    # "however much backtracking or memoised skipping preceded": alternatives with a common prefix rule, so that with Memoize
    # the second alternative resumes after a cache hit; what follows the hit is a newline, a multi-byte rune, or the end
    groups += common_prefix_groups(random.Random(seed + 17), 80 if tier == "quick" else 400, len(groups) + 1)
    # throw / recover around labelled items: a throw whose recovery expressions are tried and FAIL (parsing goes on through a
    # choice, an optional or an outer operator) must leave the label scopes as they were: the enclosing action still receives
    # what was bound before the throw, and what is bound after it
    from peg import Gram
    thr2 = []
    for nfail in (1, 2):
        for wrapk in range(4):
            for pre in (False, True):
                g = Gram(len(groups) + len(thr2) + 1)
                e = g.seq(([g.un("opt", g.lit([F.EACUTE]))] if pre else []) + [g.throw("la")])
                for i_ in range(nfail):
                    e = g.recover(e, g.seq([g.label(g.lit([F.A])), g.lit([F.EURO]), g.lit([F.EURO])]), ["la"] if i_ == 0 else ["lb", "la"])      # binds a label, then fails
                inner = [lambda: g.choice([e, g.lit([F.EACUTE]), g.lit([])]), lambda: g.un("opt", e), lambda: g.un("star", g.seq([g.cls((F.A, F.EACUTE), (), False, False), e])),
                         lambda: g.recover(e, g.action(g.un("opt", g.lit([F.A]))), ["la"])][wrapk]()
                g.rules = [g.action(g.seq([g.label(g.cls((F.A, F.EACUTE), (), False, False)), inner, g.label(g.action(g.un("star", g.any())))]))]
                g.disp = [""]
                g.compute_args()
                g.maydiverge = g.may_diverge()
                thr2.append(g)
    groups += thr2
    groups += F.random_groups(seed + 19, nrand // 4, F.RandCfg(depth=4, maxrules=3, leaves=F.LEAVES_FULL, preds=True, throw=True, errs=0.2), gi0=len(groups) + 1)
    inputs = F.all_inputs(alpha, maxlen)
    rngi = random.Random(seed + 18)
    for _ in range(40 if tier == "quick" else 200):         # a few longer lines: key, newline, key, ...
        inputs.append([b for _k in range(rngi.randint(3, 5)) for b in rngi.choice([R["a"], R["a"], R["nl"], R["eacute"], R["euro"]])])
    # a byte order mark, a carriage return and a tab are runes like any other (one column each, no new line)
    for extra in ([0xEF, 0xBB, 0xBF], [13, 10], [9], [13]):
        inputs += [extra + x for x in inputs[1:12]] + [x + extra + x for x in inputs[1:6]]
    options = [opt(), opt(memo=True), opt(maxexpr=3000), opt(maxexpr=3000, memo=True), opt(debug=True)]
    nin = len(inputs)
    recin = add_rec(groups, inputs, nrand // 5, seed, alphabet=(R["a"], R["b"], R["nl"], R["eacute"]), leaves=F.LEAVES_UTF8 + F.LEAVES_FULL, preds=True, state=True, errs=0.2)
    run.add_witnesses([f["id"] for f in findings.active("C02")], groups, inputs, options)
    run.keep_debug = True

    def plan_for(g):
        pl = [(ii, oi) for ii in range(nin) for oi in ((2,) if g.maydiverge else (0, 1))]
        if not g.maydiverge and g.gi % 3 == 1:
            pl += [(ii, 4) for ii in range(0, nin, 2)]       # Debug(true): every printed position is checked against M (T2, PosIsPure)
        if "rec" in g.tags:
            pl = [(ii, oi) for ii in list(range(0, nin, 2)) + recin for oi in (2, 3)]       # always under the budget
        return pl
    div, tot = run.execute(groups, inputs, options, plan_for, flagsets, lower=[[201, 233]], cmp=dict(ctx=True))
    design_level(run, groups, inputs, options, lambda g: [0], 250 if tier == "quick" else 3000, inputs_idx=range(nin))
    t2_bind(run, 2000 if tier == "quick" else 20000)
    # the blocks of a grammar that went through -optimize-grammar run exactly when, and see exactly what, those of the original do
    # (leaf rules with actions inlined under predicates, repetitions, labels; values compared after normalisation)
    run_o = Run("C02", tier, seed)
    og = c09_groups(seed + 31, 150 if tier == "quick" else 800)
    og += c09_idiom_groups(seed + 32, 60 if tier == "quick" else 400, len(og) + 1)
    oin = F.all_inputs([F.A, F.B, F.UA, 99], 3)
    d_o, tot_o = run_o.execute(og, oin, [opt(), opt(maxexpr=3000)], lambda g: [(ii, 1 if g.maydiverge else 0) for ii in range(len(oin))],
                               [["-optimize-grammar"]], cmp=dict(norm=True, errs=False), gen_flags_for=lambda pk: ["-alternate-entrypoints", ",".join(g.sname() for g in pk)])
    for d in d_o:
        run.violation(run_o.replay_path(d), "-optimize-grammar: df=%s gi=%d ii=%d" % (d["df"], d["gi"], d["ii"]))
    tot = dict(n=tot["n"] + tot_o["n"], states=tot["states"] + tot_o["states"], transitions=tot["transitions"] + tot_o["transitions"])
    return std_finish(run, div, tot, "block placements over E(1) with multi-byte and newline terminals + random multi-rule grammars with actions, predicates, state blocks and labels x all inputs over {a,\\n,e-acute,euro} up to the bound x {default, Memoize}; every code-block event is compared")


# ------------------------------------------------------------------------------------------
def budget_plan(nin, default_ois=(0,), budget_oi=1, lr_inputs=()):
    def plan_for(g):
        if "lr" in g.tags:
            return [(ii, oi) for ii in lr_inputs for oi in default_ois]
        return [(ii, oi) for ii in range(nin) for oi in ((budget_oi,) if g.maydiverge else default_ois)]
    return plan_for


def add_lr(groups, inputs, n, seed, maxlen=4, pure=False):
    """left-recursive towers (C08 family) appended to a check's groups, with their own input alphabet"""
    groups += F.lr_groups(seed, n, gi0=len(groups) + 1, pure=pure)
    first = len(inputs)
    inputs += F.all_inputs([F.NN, F.PLUS, F.STAR_, F.LP], maxlen)
    rng = random.Random(seed)
    for _ in range(60):
        inputs.append([rng.choice([F.NN, F.NN, F.PLUS, F.MINUS, F.STAR_, 94, F.LP, F.RP, 121, 120]) for _ in range(rng.randint(maxlen + 1, maxlen + 3))])
    inputs += [[F.NN, op, F.NN, 120] for op in (F.PLUS, F.MINUS, F.STAR_)] + [[F.NN, F.PLUS, F.NN, F.PLUS, F.NN, 120], [F.NN, F.PLUS, F.NN, F.STAR_, F.NN, 120]]
    return list(range(first, len(inputs)))


def add_rec(groups, inputs, n, seed, alphabet=((F.A,), (F.B,)), nlong=12, **kw):
    """right- and mutually recursive grammars (a rule entered again after one rune was consumed), with a few longer inputs of
    their own: nesting as deep as the input is long (rule stack, label scopes, memo rows of many frames)"""
    cfg = F.RandCfg(**dict(dict(depth=4, maxrules=3, recursive=True), **kw))
    new = F.random_groups(seed + 400, n, cfg, gi0=len(groups) + 1)
    for g in new:
        g.tags.add("rec")
    groups += new
    first = len(inputs)
    rng = random.Random(seed + 401)
    for _ in range(nlong):
        inputs.append([b for _k in range(rng.randint(4, 7)) for b in rng.choice(alphabet)])
    return list(range(first, len(inputs)))


def with_rec(plan, recin, ois=lambda g: (1,)):
    """recursive groups always run under the budget option (index 1 in the checks that use this helper): backtracking over a
    recursive grammar can take exponentially many evaluations, and the reference evaluation in TLC is bounded by the same budget"""
    def f(g):
        pl = plan(g)
        if "rec" in g.tags:
            pl = pl + [(ii, oi) for ii in recin for oi in ois(g)]
        return pl
    return f


def check_C05(tier, seed, replay=None):
    """backtracking rolls back the state store (incl. Cloner values); globalStore is never rolled back"""
    import findings
    run = Run("C05", tier, seed)
    run.decoys = True          # one parse in six gets every option twice (an overridden value first)
    if tier == "quick":
        trees = F.exhaustive(1, F.LEAVES_SMALL + F.STATE_LEAVES)
        nrand, maxlen, flagsets = 500, 3, [[], ["-optimize-parser"], ["-optimize-parser", "-optimize-basic-latin", "-nolint"]]
    else:
        trees = F.exhaustive(2, [("lit", (F.A,), False), ("lit", (), False), ("state", "inc", "x", 1), ("state", "app", "cl", 2), ("pred", False, "eq", "x", 1), ("state", "del", "x", 0)])
        nrand, maxlen, flagsets = 3000, 3, FLAGSETS_8
    mv = ("seq", ("state", "del", "x", 0), ("state", "set", "y", 2), ("lit", (F.B,), False))       # moves an entry, then fails
    for wrap in ("opt", "star", "plus"):
        for pre in (("state", "set", "x", 1), ("state", "inc", "x", 2)):
            trees.append(("seq", pre, (wrap, mv), ("pred", False, "eq", "y", 0), ("lit", (F.A,), False)))
            trees.append(("seq", pre, ("choice", mv, ("lit", (), False)), ("lit", (F.A,), False)))
    # a sequence whose LEADING elements look harmless (matchers, predicates, an action or a labelled group) but change the store
    # inside (a state block under the action / group / predicate operand / optional), then a later element fails, and the failure
    # is absorbed by ? * + or a choice: the store is the one from before the sequence
    for wrap in ("opt", "star", "plus"):
        for st_ in (("state", "inc", "x", 1), ("state", "app", "cl", 2), ("state", "set", "y", 2), ("state", "del", "x", 0), ("state", "nil", "y", 0)):
            inner = ("seq", ("lit", (F.A,), False), st_)
            for lead in (("action", inner), ("label", ("action", inner)), ("label", inner), ("opt", inner), ("seq", ("and", ("lit", (F.A,), False)), ("action", inner)),
                         ("action", ("action", inner)), ("choice", ("action", inner), ("lit", (F.B,), False))):
                trees.append(("seq", ("state", "set", "x", 1), (wrap, ("seq", lead, ("lit", (F.B,), False))), ("pred", False, "eq", "x", 1), ("star", ("any",))))
    # a key that is present and holds nil when a snapshot is taken: after the restore it is still present (and still nil)
    for wrap in ("opt", "star", "and", "not"):
        for fail in (("lit", (F.B,), False), ("seq", ("state", "set", "y", 2), ("lit", (F.B,), False)), ("seq", ("state", "del", "y", 0), ("lit", (F.B,), False))):
            trees.append(("seq", ("state", "nil", "y", 0), ("state", "set", "x", 1), (wrap, ("seq", ("lit", (F.A,), False), fail)), ("pred", False, "eq", "y", 0), ("star", ("any",))))
    groups = F.groups_from_trees(trees)
    cfg = F.RandCfg(depth=4, maxrules=3, state=True, cloner=True, gstore=True, preds=True)
    groups += F.random_groups(seed, nrand, cfg, gi0=len(groups) + 1)
    inputs = F.all_inputs([F.A, F.B], maxlen)
    # the budget of the diverging members is small: every event carries the store its block saw, and a store that grows with
    # every iteration (Cloner append) makes an observation quadratic in the budget (9 MB per parse at 3000)
    options = [opt(), opt(maxexpr=200), opt(initx=2, initg=3, initcl=5), opt(initx=1, initg=1, initcl=4, maxexpr=200), opt(debug=True)]    # InitState (a Cloner first, a plain value after it) / GlobalStore options; Debug for T2
    run.keep_debug = True
    nin = len(inputs)
    lrin = add_lr(groups, inputs, 60 if tier == "quick" else 400, seed)     # state blocks inside left-recursive growth
    recin = add_rec(groups, inputs, nrand // 5, seed, state=True, cloner=True, gstore=True, preds=True)    # state changes across many nested rule frames
    # throw / recover with a store in use: a throw that falls through k failing recovery expressions (each of which changes the
    # store before it fails) to one that matches; what runs afterwards sees the store as it was at the throw plus the matching
    # handler's own changes -- and random grammars with recovery operators and state blocks
    from peg import Gram
    X_ = 120
    thr = []
    for k_ in range(1, 4):
        for wrap in (None, "opt", "star"):
            for dirty in (False, True):
                g = Gram(len(groups) + len(thr) + 1)
                e = g.seq([g.lit([F.A]), g.state("inc", "x", 1), g.throw("la")])
                for i in range(k_):
                    failing = g.seq(([g.state("set", "y", 2 + i), g.state("app", "cl", 7)] if dirty else []) + [g.lit([F.B]), g.lit([F.B]), g.lit([F.B])])
                    e = g.recover(e, failing, ["la"] if i != 1 else ["lb", "la"])
                e = g.recover(e, g.action(g.seq([g.state("inc", "x", 10), g.un("star", g.any())])), ["la"])
                if wrap:
                    e = g.un(wrap, e)
                tail = g.action(g.seq([g.pred(False, "eq", key="x", arg=12), g.un("star", g.any())]))
                g.rules = [g.seq([g.state("set", "x", 1), g.state("app", "cl", 2), e, tail])]
                g.disp = [""]
                g.compute_args()
                g.maydiverge = g.may_diverge()
                g.tags.add("thr")
                thr.append(g)
    groups += thr
    thrg = F.random_groups(seed + 31, nrand // 5, F.RandCfg(depth=4, maxrules=3, state=True, cloner=True, throw=True, preds=True), gi0=len(groups) + 1)
    groups += thrg
    thr_first = len(inputs)
    inputs += F.all_inputs([F.A, F.B, X_], 3)
    thrin = list(range(thr_first, len(inputs)))
    for g in thrg:
        g.tags.add("thr")
    bp = with_rec(budget_plan(nin, lr_inputs=lrin), recin)

    def plan5(g):
        if "thr" in g.tags:
            return [(ii, 1 if g.maydiverge else 0) for ii in thrin]
        pl = bp(g)
        if "lr" not in g.tags:
            pl = pl + [(ii, 3 if g.maydiverge else 2) for ii in range(0, nin, 2)]
            if not g.maydiverge and g.gi % 3 == 0:
                pl = pl + [(ii, 4) for ii in range(0, nin, 2)]
        return pl
    div, tot = run.execute(groups, inputs, options, plan5, flagsets)
    design_level(run, groups, inputs, options, lambda g: [1] if g.maydiverge else [0], 400 if tier == "quick" else 100000, inputs_idx=range(nin))
    t2_bind(run, 1500 if tier == "quick" else 15000)
    return std_finish(run, div, tot, "state blocks (shallow set/inc, in-place Cloner append, globalStore increments) at every position of E(d) skeletons + random grammars with state predicates; every event carries the store and globalStore its block saw and the entry action returns the final store; all inputs over {a,b} up to the bound")


def classify_F2(run, d):
    """known finding F2: with Memoize a cache hit on an expression that binds a label skips the binding"""
    import findings
    if run.options[d["oi"] - 1]["memo"] and "memolabel" in d.get("haz", []) and d["df"] in ("val", "event-notallowed", "pair-val", "pair-errs"):
        return "F2: " + findings.what("F2")
    if run.options[d["oi"] - 1]["memo"] and "F21" in d.get("haz", []) and d["df"] in ("pair-errs", "pair-nomatch"):
        return "F21: " + findings.what("F21")
    return None


def double_reach_groups(rng, n, gi0):
    """the same rule reached at one offset along two different paths"""
    from peg import Gram
    out = []
    for i in range(n):
        g = Gram(gi0 + i)
        sub_cfg = F.RandCfg(depth=3, maxrules=1, preds=True)
        # rule 2: x* then labelled things under an action
        body = g.action(g.seq([g.un("star", g.lit([F.A])), g.label(g.cls((F.A, F.B), (), False, False)),
                               g.un("opt", g.label(g.lit([F.B])))]), err=rng.random() < 0.4)     # the rule reached twice may report an error (once)
        alts = []
        if rng.random() < 0.4:
            alts.append(g.seq([g.un(rng.choice(["and", "not"]), g.ref(2)), g.label(g.ref(2)), g.un("opt", g.lit([F.B]))]))
        for _ in range(rng.randint(2, 3)):
            pre = [g.lit([F.A])] * rng.randint(0, 2)
            suf = [rng.choice([g.lit([F.B]), g.lit([F.UA], True), g.any(), g.un("not", g.any())])]
            alts.append(g.seq(pre + [g.label(g.ref(2))] + suf) if rng.random() < 0.5 else g.action(g.seq(pre + [g.label(g.ref(2))] + suf)))
        g.rules = [g.choice(alts), body]
        g.disp = ["", ""]
        g.compute_args()
        g.maydiverge = g.may_diverge()
        out.append(g)
    return out


def check_C06(tier, seed, replay=None):
    """Memoize, Debug, Statistics never change results; Memoize bounds the work"""
    import findings
    from rt import pairwise, load_obs
    run = Run("C06", tier, seed)
    rng = random.Random(seed)
    if tier == "quick":
        trees = F.exhaustive(1, F.LEAVES_FULL + F.PRED_LEAVES)
        nrand, ndr, maxlen = 400, 60, 3
    else:
        trees = F.exhaustive(1, F.LEAVES_FULL + F.PRED_LEAVES) + F.exhaustive(2, F.LEAVES_SMALL[:3])
        nrand, ndr, maxlen = 1500, 400, 3
    groups = F.groups_from_trees(trees)
    cfg = F.RandCfg(depth=4, maxrules=3, preds=True, errs=0.2)
    groups += F.random_groups(seed, nrand, cfg, gi0=len(groups) + 1)
    groups += double_reach_groups(rng, ndr, len(groups) + 1)
    inputs = F.all_inputs([F.A, F.B, F.UA], maxlen)
    combos = [(m, d, s) for m in (False, True) for d in (False, True) for s in (False, True)]
    options = [opt(memo=m, debug=d, stats=s) for (m, d, s) in combos] + [opt(memo=m, debug=d, stats=s, maxexpr=3000) for (m, d, s) in combos]
    # memoised parses that are cut short (budget exhausted after a few entries were made), in between the others: what a parse
    # leaves behind when it is aborted must not reach the next one
    cut = [len(options), len(options) + 1]
    options += [opt(memo=True, maxexpr=4), opt(memo=True, maxexpr=9, stats=False)]
    nin = len(inputs)
    lrin = add_lr(groups, inputs, 60 if tier == "quick" else 400, seed, maxlen=3, pure=True)   # "for a grammar without left recursion" limits only the work bound
    # deep evaluation: the options must not change the result of a parse that nests hundreds of frames (indentation of the
    # Debug trace, recursion of the memoised path)
    from peg import Gram
    deep = []
    for body in (lambda g: g.choice([g.seq([g.lit([F.A]), g.ref(1)]), g.lit([F.A])]),
                 lambda g: g.choice([g.seq([g.lit([F.B]), g.ref(1), g.lit([F.B])]), g.action(g.lit([F.A]))]),
                 lambda g: g.action(g.seq([g.un("opt", g.seq([g.lit([F.B]), g.label(g.ref(1))])), g.lit([F.A])]))):
        g = Gram(len(groups) + 1)
        g.rules = [body(g)]
        g.disp = [""]
        g.compute_args()
        g.maydiverge = False
        g.tags.add("deep")
        groups.append(g)
        deep.append(g)
    deep_first = len(inputs)
    inputs += [[F.A] * 70, [F.B] * 45 + [F.A] + [F.B] * 45, [F.B] * 60 + [F.A], [F.B] * 30 + [F.A] + [F.B] * 29]
    deepin = list(range(deep_first, len(inputs)))
    recin = add_rec(groups, inputs, nrand // 5, seed, alphabet=((F.A,), (F.B,), (F.UA,)), preds=True, errs=0.2)
    # what a block sees AFTER a cache hit: alternatives with a common prefix rule; the hit ends before a newline, a multi-byte
    # rune or the end of the input, and the blocks that run afterwards report their position and text (values, errors)
    cpg = common_prefix_groups(random.Random(seed + 23), 40 if tier == "quick" else 300, len(groups) + 1)
    for g in cpg:
        g.tags.add("cp")
    groups += cpg
    cp_first = len(inputs)
    inputs += F.all_inputs([[F.A], [F.NL], F.utf8(F.EACUTE)], 3)
    rcp = random.Random(seed + 24)
    for _ in range(20):
        inputs.append([b for _k in range(rcp.randint(3, 6)) for b in rcp.choice([[F.A], [F.A], [F.NL], F.utf8(F.EACUTE), F.utf8(F.EURO)])])
    cpin = list(range(cp_first, len(inputs)))
    run.add_witnesses([f["id"] for f in findings.active("C06")], groups, inputs, options)

    def plan_for(g):
        if "cp" in g.tags:
            return [(ii, oi) for ii in cpin for oi in (range(8, 16) if g.maydiverge else range(8))]
        if "rec" in g.tags:
            ois = [8 + i for i, c in enumerate(combos) if not c[0]] if g.maydiverge else list(range(8, 16))       # always under the budget
            return [(ii, oi) for ii in list(range(0, nin, 2)) + recin for oi in ois]
        if "lr" in g.tags:
            return [(ii, oi) for ii in lrin for oi in range(8)]
        if "deep" in g.tags:
            return [(ii, oi) for ii in deepin for oi in range(8)]
        # Memoize on a grammar that iterates without consuming never returns (known finding F3, C16): not run here
        ois = [8 + i for i, c in enumerate(combos) if not c[0]] if g.maydiverge else list(range(8))
        if not g.maydiverge and g.gi % 3 == 0:
            ois = [cut[0]] + ois[:5] + [cut[1]] + ois[5:]
        return [(ii, oi) for ii in range(nin) for oi in ois]
    run.keep_debug = True
    div, tot = run.execute(groups, inputs, options, plan_for, [[], ["-optimize-basic-latin", "-nolint"]])
    design_level(run, groups, inputs, options, lambda g: [8, 8] if g.maydiverge else [0, 4], 300 if tier == "quick" else 100000, inputs_idx=range(nin))
    t2_bind(run, 2500 if tier == "quick" else 30000)
    # real-vs-real: every option combination against the default run of the same parser
    npairs = 0
    f21 = {(h["vi"], h["gi"], h["ii"], h["oi"]) for h in tot.get("kfhits", []) if h["df"] == "kf-F21"}     # parses T1 accepted under known finding F21
    ml = {(d2["gi"], d2["ii"]) for d2 in div if "memolabel" in d2.get("haz", [])}
    for vx in range(len(run.variants)):
        obs = load_obs(run.obs[vx])
        for (gi, ii, oi), o in obs.items():
            base = obs.get((gi, ii, 1 if oi <= 8 else 9))
            if base is None or o is base or gi in run.wit:
                continue
            npairs += 1
            for fld in ("status", "ok", "end", "val", "errs", "nomatch"):
                a_, b_ = (o[fld]["is"], base[fld]["is"]) if fld == "nomatch" else (o[fld], base[fld])
                if a_ != b_:
                    hz = ["memolabel"] if (gi, ii) in ml else []
                    if (o["vi"], gi, ii, oi) in f21 and fld in ("errs", "nomatch"):
                        hz.append("F21")
                    div.append(dict(k=o["k"], vi=o["vi"], gi=gi, ii=ii, oi=oi, df="pair-" + fld, at=0, haz=hz))
                    break
    import optproto
    optproto.report(run, tier, seed, with_design=False)     # the option protocol (Options.tla) stepped on real parser objects
    return std_finish(run, div, tot, "pure-block grammars (E(d) with predicates, random multi-rule, double-reach shapes: one rule reached at one offset along two paths) x all inputs x the 8 combinations of Memoize/Debug/Statistics; each compared with PegRef and with the default-option run of the same parser; ExprCnt <= expressions x (len+1) under Memoize",
                      classify=classify_F2, extra=dict(option_pairs_compared=npairs))


def check_C10(tier, seed, replay=None):
    """-optimize-parser output is observationally equivalent"""
    import findings
    from rt import pairwise
    run = Run("C10", tier, seed)
    run.decoys = True          # one parse in six gets every option twice (an overridden value first)
    n = 250 if tier == "quick" else 800
    maxlen = 3
    groups = F.random_groups(seed, n, F.RandCfg(depth=4, safe_rep=False), 1)
    groups += F.random_groups(seed + 1, n, F.RandCfg(depth=4, state=True, cloner=True, gstore=True, preds=True, errs=0.2), len(groups) + 1)
    groups += F.random_groups(seed + 2, n, F.RandCfg(depth=4, throw=True, preds=True, errs=0.3, leaves=F.LEAVES_FULL + F.LEAVES_UTF8), len(groups) + 1)
    groups += F.random_groups(seed + 4, n // 2, F.RandCfg(depth=4, maxrules=2, preds=True, labpool=["k", "v", "w"]), len(groups) + 1)      # label shadowing
    sh = [("lit", (F.A,), False), ("cls", (F.A, F.B), (), False, False), ("any",)]
    shg = F.groups_from_trees([("shadow", a, b, c) for a in sh for b in sh for c in sh[:2]] + [("shadow", a, b, ("lit", (), False), ("pred", False, "true")) for a in sh for b in sh], gi0=len(groups) + 1)
    groups += shg
    inputs = F.all_inputs([F.A, F.B, F.NL], maxlen)
    options = [opt(), opt(maxexpr=3000)]
    nin = len(inputs)
    lrin = add_lr(groups, inputs, 100 if tier == "quick" else 600, seed)   # left-recursion handling when that is enabled
    # case folding beyond the letters: ignore-case terminals over cased runes that are not letters, or that fold into ASCII
    fold = F.random_groups(seed + 6, n // 3, F.RandCfg(depth=3, maxrules=2, leaves=F.LEAVES_FOLD + [("lit", (F.A,), False), ("any",)]), len(groups) + 1)
    for g in fold:
        g.tags.add("fold")
    groups += fold
    fold_first = len(inputs)
    inputs += F.all_inputs([F.utf8(F.RN), F.utf8(F.RNL), F.utf8(F.RN + 2), F.utf8(F.RNL + 2), [F.A], [107], [75], F.utf8(F.KELVIN), F.utf8(0xC9), F.utf8(0xE9)], 2)
    foldin = list(range(fold_first, len(inputs)))
    recin = add_rec(groups, inputs, n // 2, seed, alphabet=((F.A,), (F.B,), (F.NL,)), state=True, cloner=True, preds=True, errs=0.2, throw=True)
    bp = with_rec(budget_plan(nin, lr_inputs=lrin), recin)
    # ill-formed input (C17's family): terminals of one and several runes, U+FFFD as a literal and as a class member, input bytes
    # that are no UTF-8; with and without AllowInvalidUTF8 -- the two parsers of a pair must report the same errors and values
    FF = F.FFFD
    badleaves = [("any",), ("cls", (FF,), (), False, False), ("cls", (F.A,), (), True, False), ("lit", (FF,), False), ("lit", (F.A,), False),
                 ("lit", (F.A, F.B), False), ("lit", (F.A, F.EACUTE), False), ("lit", (F.A, F.B, F.A), False), ("lit", (F.A, FF), False), ("lit", (F.B, F.A), True)]
    bad = F.groups_from_trees(F.exhaustive(1, badleaves[:8]), gi0=len(groups) + 1)
    bad += F.random_groups(seed + 8, n // 3, F.RandCfg(depth=3, maxrules=2, leaves=badleaves, preds=True), len(groups) + len(bad) + 1)
    for g in bad:
        g.tags.add("bad8")
    groups += bad
    bad_first = len(inputs)
    inputs += F.all_inputs([0x61, 0x62, 0xC3, 0xA9, 0xFF, 0x80, 0xEF, 0xBF, 0xBD], 3)
    badin = list(range(bad_first, len(inputs)))
    options.append(opt(allowinv=True))
    options.append(opt(allowinv=True, maxexpr=3000))
    allow_oi = len(options) - 2

    # a code block that panics (the panic is contained and reported): the parses that FOLLOW in the same process must not
    # see anything of it (stacks, pooled parser parts)
    panic_oi = {}
    for g in groups:
        blks = [n_["blk"] for n_ in g.nodes if n_["blk"]]
        if blks and g.gi % 5 == 0 and not g.maydiverge and "lr" not in g.tags and "fold" not in g.tags:
            options.append(opt(panicblk=blks[0]))
            panic_oi[g.gi] = len(options) - 1

    def plan10(g):
        if "bad8" in g.tags:
            return [(ii, oi) for ii in badin for oi in ((1, allow_oi + 1) if g.maydiverge else (0, allow_oi))]
        if "fold" in g.tags:
            return [(ii, 1 if g.maydiverge else 0) for ii in foldin]
        if g.gi in panic_oi:
            pl = bp(g)
            half = len(pl) // 2
            return pl[:half] + [(ii, panic_oi[g.gi]) for ii in range(nin)] + pl[half:]
        return bp(g)
    xs = [[], ["-optimize-basic-latin"], ["-nolint"], ["-optimize-basic-latin", "-nolint"]]
    flagsets = [f for x in xs for f in (x, x + ["-optimize-parser"])]
    div, tot = run.execute(groups, inputs, options, plan10, flagsets, lower=F.FOLD_PAIRS)
    pairs = [(i, i + 1) for i in range(0, len(run.variants), 2)]
    d2, npairs = pairwise(run, pairs, fields=("status", "ok", "end", "val", "errs", "nomatch", "escaped"))
    div += [d for d in d2 if d["gi"] not in run.wit]
    # complete removal of the state store when the grammar has no state blocks
    removed = 0
    for v in run.variants:
        if v.optimized and not v.state_on:
            src = open(os.path.join(v.dir, "g.go")).read()
            removed += 1
            if "storeDict)" in src and "func (p *parser) cloneState" in src:
                run.violation(run.replay_path(dict(k=0, vi=v.vi, gi=v.groups[0].gi, ii=1, oi=1, df="state-not-removed", at=0)), "state store code present in an optimized parser without state blocks")
    return std_finish(run, div, tot, "random grammars (plain, with state/Cloner/globalStore/predicates/errors, with throw/recover and multi-byte terminals) x all inputs x flag pairs (X, X + -optimize-parser), X over the other flags; each run compared with PegRef and the two members of a pair with each other (value, error list)",
                      extra=dict(pairs_compared=npairs, stateless_optimized_parsers_checked=removed))


# ------------------------------------------------------------------------------------------
def check_C11(tier, seed, replay=None):
    """error contract: typed, positioned, accumulated errors; panics contained (fault enumeration over blocks)"""
    import itertools
    run = Run("C11", tier, seed)
    run.decoys = True          # one parse in six gets every option twice (an overridden value first)
    rng = random.Random(seed)
    ngroups, maxblk, maxlen = (120, 4, 3) if tier == "quick" else (500, 6, 3)
    cfg = F.RandCfg(depth=3, maxrules=3, preds=True, state=True, errs=0.0, leaves=F.LEAVES_FULL + [("lit", (F.NL,), False)])
    groups = []
    seedx = seed * 1000
    while len(groups) < ngroups:
        seedx += 1
        g = F.random_group(random.Random(seedx), len(groups) + 1, cfg)
        nb = sum(1 for n in g.nodes if n["blk"])
        if 1 <= nb <= maxblk and not g.maydiverge:
            groups.append(g)
    inputs = F.all_inputs([F.A, F.B, F.NL], maxlen)
    nin = len(inputs)
    # error-returning blocks inside left-recursive growth (errors of the final, non-extending attempt are not retained)
    nlr0 = len(groups)
    seedy = seed * 77
    while len(groups) < nlr0 + (25 if tier == "quick" else 60):
        seedy += 1
        g = F.lr_group(random.Random(seedy), len(groups) + 1)
        if 1 <= sum(1 for n in g.nodes if n["blk"]) <= maxblk + 1:
            groups.append(g)
    # the same match reported by several rules: wrapper chains whose actions all start at one offset (R1 <- R2 {..} ; R2 <- R3 {..} ;
    # R3 <- 'a'+ {..}), some with display names; with one message for all blocks the reports differ in the rule name only
    from peg import Gram
    for k_ in range(6):
        g = Gram(len(groups) + 1)
        leaf = g.action(g.un("plus", g.cls((F.A, F.B), (), False, False)))
        mid = g.action(g.seq([g.label(g.ref(3)), g.un("opt", g.lit([F.NL]))])) if k_ % 2 else g.action(g.ref(3))
        top_ = g.action(g.seq([g.label(g.ref(2)), g.un("star", g.any())])) if k_ % 3 else g.action(g.choice([g.seq([g.ref(2), g.lit([F.NL])]), g.ref(2)]))
        g.rules = [top_, mid, leaf]
        g.disp = [["", "", ""], ["d1", "", "d3"], ["", "d`2", ""], ["same", "same", ""], ["", "", "'x'"], ["d1", "d1", "d1"]][k_]
        g.compute_args()
        g.maydiverge = False
        groups.append(g)
    lr_first = len(inputs)
    inputs += F.all_inputs([F.NN, F.PLUS, F.STAR_], 4) + [[F.NN, F.PLUS, F.NN, F.STAR_, F.NN, F.PLUS, F.NN], [F.NN, F.MINUS, F.NN, F.PLUS, F.NN, F.NN]]
    inputs += [[F.NN, a, F.NN, b, F.NN, 120] for a in (F.PLUS, F.MINUS, F.STAR_) for b in (F.PLUS, F.MINUS, F.STAR_)] + [[F.NN, a, F.NN, 120] for a in (F.PLUS, F.MINUS, F.STAR_)]
    lrin = list(range(lr_first, len(inputs)))
    options = []
    plans = {}
    for g in groups:
        blks = [n["blk"] for n in g.nodes if n["blk"]]
        ois = []
        for r in range(len(blks) + 1):
            for sub in itertools.combinations(blks, r):       # every subset of failing blocks
                options.append(opt(errblks=list(sub), fname=rng.choice(["", "f", "dir/x.peg", "a%d b.peg", "100%.txt", "x:1:2 (3).peg"]),
                                   via=rng.choice(["", "", "reader", "file"]),          # the contract is that of all three entry points
                                   samemsg=len(sub) >= 2 and rng.random() < 0.5))         # one message for all blocks: reported once per position AND rule
                ois.append(len(options) - 1)
        for b in blks:                                          # every single block panics, contained or not
            for rec in (True, False):
                options.append(opt(panicblk=b, recover=rec, errblks=[x for x in blks if rng.random() < 0.3]))
                ois.append(len(options) - 1)
        plans[g.gi] = [(ii, oi) for ii in (lrin if "lr" in g.tags else range(nin)) for oi in ois]
    div, tot = run.execute(groups, inputs, options, lambda g: plans[g.gi], [[], ["-optimize-parser"]])
    import optproto
    optproto.report(run, tier, seed, with_design=False)     # the option protocol (Options.tla) stepped on real parser objects
    return std_finish(run, div, tot, "random grammars with 1..k code blocks (actions, predicates, state blocks; display names on a third of the rules) x all inputs over {a,b,\\n} x EVERY subset of blocks returning an error x every single block panicking under Recover(true) and Recover(false) x file names; errors compared as (position, rule, message) lists with de-duplication; typing (errList of *parserError, Inner identity, prefix shape) asserted inside the generated package",
                      level="fault_enumeration", extra=dict(fault_sets=len(options)))


def check_C12(tier, seed, replay=None):
    """a failed parse reports the farthest failure position and the exact expected set"""
    run = Run("C12", tier, seed)
    run.decoys = True          # one parse in six gets every option twice (an overridden value first)
    if tier == "quick":
        base = F.exhaustive(1, F.LEAVES_FULL)
        nrand, maxlen = 500, 3
    else:
        base = F.exhaustive(2, F.LEAVES_SMALL)
        nrand, maxlen = 3000, 3
    trees = base + [("not", ("not", t)) for t in base[:192]] + [("seq", ("not", t), ("any",)) for t in base[:192]] + \
        [("seq", ("and", ("not", t)), ("lit", (F.A,), False)) for t in base[:192]]
    groups = F.groups_from_trees(trees)
    cfg = F.RandCfg(depth=4, maxrules=3, blocks=True, leaves=F.LEAVES_FULL + F.LEAVES_UTF8, safe_rep=False)
    groups += F.random_groups(seed, nrand, cfg, gi0=len(groups) + 1)
    R = F.RUNES
    inputs = F.all_inputs([R["a"], R["b"], R["nl"], R["eacute"]], maxlen)
    options = [opt(), opt(maxexpr=3000)]
    nin12 = len(inputs)
    lr12 = []
    sd = seed * 31
    while len(lr12) < (60 if tier == "quick" else 400):       # left-recursive towers without error-returning blocks
        sd += 1
        g = F.lr_group(random.Random(sd), len(groups) + len(lr12) + 1, pure=True)
        if not any(nn["err"] for nn in g.nodes):
            lr12.append(g)
    groups += lr12
    first = len(inputs)
    inputs += F.all_inputs([F.NN, F.PLUS, F.STAR_, F.LP], 4) + [[F.NN, F.PLUS, F.NN, F.PLUS], [F.NN, F.PLUS, F.NN, F.STAR_, F.NN, F.PLUS], [F.NN, F.PLUS, F.NL], [F.NN, F.NN, F.PLUS, F.NN, F.PLUS]]
    lrin = list(range(first, len(inputs)))
    recin = add_rec(groups, inputs, nrand // 5, seed, alphabet=(R["a"], R["b"], R["nl"], R["eacute"]), leaves=F.LEAVES_FULL + F.LEAVES_UTF8, safe_rep=False)
    div, tot = run.execute(groups, inputs, options, with_rec(budget_plan(nin12, lr_inputs=lrin), recin), FLAGSETS_2 + [["-optimize-basic-latin"]], lower=[[201, 233]])
    nm = 0
    from rt import load_obs
    for p in run.obs:
        nm += sum(1 for o in load_obs(p).values() if o["nomatch"]["is"])
    return std_finish(run, div, tot, "E(d) expressions, the same under double negation / after a negative predicate / under &!, random grammars with multi-byte terminals; all inputs over {a,b,\\n,e-acute}; for every failed parse the single error's position and expected SET are compared with PegRef's farthest-failure events, sortedness and duplicates are checked by the runner",
                      extra=dict(no_match_errors_compared=nm))


def check_C14(tier, seed, replay=None):
    """throw and recover follow the labelled-failure semantics"""
    from peg import Gram
    run = Run("C14", tier, seed)
    run.decoys = True          # one parse in six gets every option twice (an overridden value first)
    n, maxlen, depth = (600, 3, 4) if tier == "quick" else (5000, 4, 5)
    groups = []
    # the probes of DESIGN.md (innermost first, fall-through, unlisted labels skipped, continuation, handler scope)
    def probe(build):
        g = Gram(len(groups) + 1)
        build(g)
        g.disp = [""] * len(g.rules)
        g.compute_args()
        g.maydiverge = g.may_diverge()
        groups.append(g)
    X, Y, D, Cc = 120, F.B, F.B, F.A        # every terminal of the probes is in the input alphabet {a, b, x}
    probe(lambda g: setattr(g, "rules", [g.recover(g.recover(g.seq([g.lit([F.A]), g.throw("la")]), g.lit([X]), ["la"]), g.lit([Y]), ["la"])]))
    probe(lambda g: setattr(g, "rules", [g.recover(g.recover(g.seq([g.lit([F.A]), g.throw("lb")]), g.lit([X]), ["la"]), g.lit([Y]), ["lb", "la"])]))
    probe(lambda g: setattr(g, "rules", [g.seq([g.recover(g.seq([g.lit([F.A]), g.throw("la"), g.lit([Cc])]), g.lit([X]), ["la"]), g.lit([D])])]))
    probe(lambda g: setattr(g, "rules", [g.seq([g.recover(g.lit([F.A]), g.lit([X]), ["la"]), g.throw("la")])]))
    probe(lambda g: setattr(g, "rules", [g.recover(g.un("star", g.seq([g.lit([F.A]), g.ref(2)])), g.lit([X]), ["la"]), g.choice([g.lit([F.B]), g.throw("la")])]))
    probe(lambda g: setattr(g, "rules", [g.recover(g.seq([g.un("not", g.seq([g.lit([F.A]), g.throw("la")])), g.any()]), g.lit([F.A]), ["la"])]))
    # label lists with repeated names: every listed label is handled, wherever the repeats are
    for labs in (["la", "la", "lb"], ["la", "lb", "la", "lc"], ["lb", "lb"], ["la", "lb", "la"]):
        for th in ("la", "lb", "lc"):
            probe(lambda g: setattr(g, "rules", [g.seq([g.recover(g.seq([g.lit([F.A]), g.throw(th)]), g.action(g.lit([X])), labs), g.un("opt", g.lit([F.B]))])]))
    # two recovery operators one after the other at the same depth; the later guarded expression throws the earlier one's label
    for (l1, l2, th) in [("la", "lb", "la"), ("la", "lb", "lb"), ("lb", "la", "lb"), ("la", "lc", "la")]:
        probe(lambda g: setattr(g, "rules", [g.seq([g.recover(g.seq([g.lit([F.A]), g.un("opt", g.throw(l1))]), g.lit([X]), [l1]),
                                                   g.recover(g.seq([g.lit([F.B]), g.throw(th)]), g.lit([Y]), [l2])])]))
        probe(lambda g: setattr(g, "rules", [g.recover(g.seq([g.recover(g.seq([g.lit([F.A]), g.un("opt", g.throw(l1))]), g.lit([X]), [l1]),
                                                              g.recover(g.seq([g.lit([F.B]), g.throw(th)]), g.lit([Y]), [l2])]), g.action(g.lit([F.A])), ["la", "lb", "lc"])]))
    # a throw falling through k failing handlers (k = 0..3) with a non-empty state store: the handler that finally runs, and
    # whatever runs after a throw that failed under ? * +, see the store exactly as it was at the throw
    def fall(g, k, wrap, after):
        e = g.seq([g.lit([F.A]), g.throw("la")])
        for i in range(k):
            e = g.recover(e, g.lit([X]) if i % 2 == 0 else g.seq([g.lit([Y]), g.lit([Y])]), ["la"] if i != 1 else ["lb", "la"])
        if after == "handler":
            e = g.recover(e, g.action(g.seq([g.pred(False, "eq", key="x", arg=1), g.un("star", g.any())])), ["la"])
        if wrap:
            e = g.un(wrap, e)
        tail = g.action(g.seq([g.pred(False, "eq", key="x", arg=1), g.un("star", g.any())]))
        g.rules = [g.seq([g.state("set", "x", 1), g.state("app", "cl", 2), e, tail])]
    for k in range(4):
        for wrap in (None, "opt", "star"):
            for after in ("handler", "rest"):
                if wrap is None and after == "rest":
                    continue
                probe(lambda g: fall(g, k, wrap, after))
    # recursion that re-enters a recovery operator while another operator listing the same label sits between the two
    # activations: the innermost activation's own handler must run (the handlers are told apart by their values)
    def reenter(g, labs2, throw_lab, wrap2):
        h1, h2 = g.action(g.lit([])), g.action(g.un("star", g.lit([X])))
        body = g.choice([g.action(g.seq([g.lit([X]), g.label(g.ref(2)), g.lit([F.B])])), g.action(g.lit([F.A])), g.throw(throw_lab)])
        inner = g.recover(g.ref(1), h2, labs2)
        if wrap2:
            inner = g.seq([inner, g.un("opt", g.lit([F.A]))])
        g.rules = [g.recover(body, h1, ["la"]), inner]
    for labs2 in (["la"], ["lb", "la"], ["lb"]):
        for th in ("la", "lb"):
            for wrap2 in (False, True):
                probe(lambda g: reenter(g, labs2, th, wrap2))
    # the handlers in force while a RECOVERY EXPRESSION runs are those in force at the throw: an operator nested inside the
    # guarded expression of the one whose recovery expression is running still catches what that expression throws
    def inner_visible(g, rec_inner, rec_outer_pre, labs_inner, body_wrap):
        body = g.seq([g.lit([F.A]), g.throw("la")])
        if body_wrap:
            body = g.seq([g.un(body_wrap, body), g.un("opt", g.lit([F.B]))])
        inner = g.recover(body, rec_inner(g), labs_inner)
        outer_rec = g.seq([rec_outer_pre(g), g.throw("lb")]) if rec_outer_pre else g.throw("lb")
        g.rules = [g.action(g.seq([g.label(g.recover(inner, outer_rec, ["la"])), g.un("star", g.any())]))]
    for rec_inner in (lambda g: g.action(g.lit([X])), lambda g: g.lit([]), lambda g: g.seq([g.lit([X]), g.lit([X])])):
        for pre in (None, lambda g: g.un("opt", g.lit([X])), lambda g: g.lit([F.B])):
            for labs_inner in (["lb"], ["lc", "lb"], ["lc"]):
                for wrap in (None, "opt", "star"):
                    probe(lambda g: inner_visible(g, rec_inner, pre, labs_inner, wrap))
    # several throws under ONE activation of an operator whose recovery expression itself contains recovery operators (which
    # push and pop handlers of their own while it runs): every one of the throws is served
    def many_throws(g, rec_kind, rep, in_rule):
        item = g.choice([g.action(g.lit([F.A])), g.throw("la")])
        if rec_kind == 0:
            rec = g.recover(g.lit([X]), g.lit([F.B]), ["lb"])
        elif rec_kind == 1:
            rec = g.recover(g.seq([g.lit([X]), g.un("opt", g.throw("lb"))]), g.lit([]), ["lb"])
        else:
            rec = g.seq([g.recover(g.lit([X]), g.lit([F.B]), ["lb"]), g.recover(g.un("opt", g.lit([F.B])), g.lit([X]), ["lc", "la"])])
        guarded = g.un(rep, g.ref(2) if in_rule else item)
        g.rules = [g.action(g.seq([g.label(g.recover(guarded, g.action(rec), ["la"])), g.un("star", g.any())]))] + ([item] if in_rule else [])
    for rec_kind in range(3):
        for rep in ("star", "plus"):
            for in_rule in (False, True):
                probe(lambda g: many_throws(g, rec_kind, rep, in_rule))
    # mutually recursive rules, a label thrown in only one of them, recovery operators guarding either rule (whatever the
    # generator works out per rule about "the labels that can be thrown below" must hold through the cycle)
    def mutual_throw(g, swap, thrower, outer):
        # rule 2 = Value <- List / 'a' / throw ; rule 3 = List <- 'x' Value ('b' Value)* 'x'
        th = lambda: g.throw("la")
        value = g.choice([g.ref(3), g.action(g.lit([F.A]))] + ([th()] if thrower == 2 else []))
        lst = g.action(g.seq([g.lit([X]), g.label(g.ref(2)), g.un("star", g.seq([g.lit([F.B]), g.ref(2)])), g.choice([g.lit([X])] + ([th()] if thrower == 3 else []))]))
        skip = lambda: g.action(g.un("opt", g.lit([F.B])))
        ops = [g.recover(g.ref(2), skip(), ["la"]), g.recover(g.ref(3), skip(), ["la"])]
        if swap:
            ops.reverse()
        body = g.seq([ops[0], g.un("opt", ops[1])]) if outer == 0 else g.choice([g.seq([ops[0], g.lit([F.A])]), ops[1]])
        g.rules = [g.action(g.seq([g.label(body), g.un("star", g.any())])), value, lst]
    for swap in (False, True):
        for thrower in (2, 3):
            for outer in (0, 1):
                probe(lambda g: mutual_throw(g, swap, thrower, outer))
    cfg = F.RandCfg(depth=depth, maxrules=3, throw=True, preds=True, blocks=True, errs=0.1)
    groups += F.random_groups(seed, n, cfg, gi0=len(groups) + 1)
    # right and mutual recursion under recovery operators (always under the budget: see add_rec)
    recg = F.random_groups(seed + 9, n // 4, F.RandCfg(depth=depth, maxrules=3, throw=True, recursive=True, blocks=True), gi0=len(groups) + 1)
    for g in recg:
        g.tags.add("rec")
    groups += recg
    cfg2 = F.RandCfg(depth=depth, maxrules=3, throw=True, state=True, cloner=True, blocks=True)
    groups += F.random_groups(seed + 7, n // 2, cfg2, gi0=len(groups) + 1)
    inputs = F.all_inputs([F.A, F.B, X], maxlen)
    options = [opt(), opt(maxexpr=5000), opt(debug=True)]
    run.keep_debug = True
    bp14 = budget_plan(len(inputs))

    def plan14(g):
        if "rec" in g.tags:
            return [(ii, 1) for ii in range(len(inputs))]
        pl = bp14(g)
        if not g.maydiverge and g.gi % 3 == 0:
            pl = pl + [(ii, 2) for ii in range(0, len(inputs), 2)]     # Debug(true): the T2 traces
        return pl
    div, tot = run.execute(groups, inputs, options, plan14, FLAGSETS_2)
    design_level(run, groups, inputs, options, lambda g: [0], 400 if tier == "quick" else 5000)
    t2_bind(run, 1500 if tier == "quick" else 15000)
    # the same semantics must hold for parsers generated with -optimize-grammar (values compared after normalisation)
    run_o = Run("C14", tier, seed)
    d_o, tot_o = run_o.execute(groups, inputs, options, lambda g: [(ii, 1) for ii in range(len(inputs))] if "rec" in g.tags else bp14(g), [["-optimize-grammar"]], cmp=dict(norm=True, errs=False),
                               gen_flags_for=lambda pk: ["-alternate-entrypoints", ",".join(g.sname() for g in pk)])
    for d in d_o:
        run.violation(run_o.replay_path(d), "-optimize-grammar: df=%s gi=%d ii=%d" % (d["df"], d["gi"], d["ii"]))
    tot = dict(n=tot["n"] + tot_o["n"], states=tot["states"] + tot_o["states"], transitions=tot["transitions"] + tot_o["transitions"])
    nthrow = sum(1 for g in groups if any(nn["k"] == "throw" for nn in g.nodes))
    return std_finish(run, div, tot, "hand-written probes + random grammars with nested recovery operators over 3 labels (shared labels, throws in called rules, inside repetitions and predicates, consuming / failing / nullable recovery expressions, with actions, predicates and state blocks) x all inputs over {a,b,x}; value, end offset, events and errors compared with PegRef's handler-stack semantics",
                      extra=dict(groups_with_throw=nthrow))


# ------------------------------------------------------------------------------------------
def classify_F3(run, d):
    import findings
    o = run.options[d["oi"] - 1]
    if o["memo"] and o["maxexpr"] > 0 and d["df"] in ("timeout", "oom") and run.groups[d["gi"] - 1].maydiverge:
        return "F3: " + findings.what("F3")
    return None


def check_C16(tier, seed, replay=None):
    """MaxExpressions bounds every parse"""
    import findings
    from peg import Gram
    run = Run("C16", tier, seed)
    run.decoys = True          # one parse in six gets every option twice (an overridden value first)
    groups = []
    lits = [("lit", (F.A,), False), ("lit", (), False), ("cls", (F.A, F.B), (), False, False)]
    div_trees = []
    for e in lits:
        div_trees += [("star", ("opt", e)), ("plus", ("and", e)), ("star", ("choice", ("lit", (), False), e)), ("star", ("star", e)),
                      ("seq", ("star", ("opt", e)), ("lit", (F.B,), False)), ("star", ("not", e)),
                      ("choice", ("seq", ("plus", ("opt", e)), ("lit", (F.B,), False)), ("any",)),
                      ("star", ("seq", ("opt", e), ("star", ("lit", (), False))))]
    groups += F.groups_from_trees(div_trees + F.exhaustive(1, F.LEAVES_SMALL))
    n, maxlen, maxb = (150, 3, 12) if tier == "quick" else (500, 4, 24)
    groups += F.random_groups(seed, n, F.RandCfg(depth=4, safe_rep=False, preds=True), gi0=len(groups) + 1)
    groups += F.random_groups(seed + 3, n // 2, F.RandCfg(depth=4, safe_rep=False, throw=True, state=True), gi0=len(groups) + 1)
    inputs = F.all_inputs([F.A, F.B], maxlen)
    nin = len(inputs)
    options = []
    for nb in list(range(1, maxb + 1)) + [60, 3000]:
        for memo in (False, True):
            options.append(opt(maxexpr=nb, memo=memo))
    rec_false = len(options)
    options.append(opt(maxexpr=7, recover=False))
    options.append(opt(maxexpr=3000, recover=False))
    for nb in (2, 6, 11, 25):                       # "under every combination of the other runtime options": option order, Statistics, AllowInvalidUTF8
        options.append(opt(maxexpr=nb, rev=True))
        options.append(opt(maxexpr=nb, rev=True, stats=False, allowinv=True))
        options.append(opt(maxexpr=nb, stats=False, debug=True))
    # the largest budget there is, alone and with one Stats value that accumulates over all these parses (a finite budget
    # together with a Stats value that already holds counts is not judged: the statement does not say which count is meant)
    options += [opt(maxexpr=-1, sharestats=True), opt(maxexpr=-1)]
    nopt = len(options)
    # a long input of ill-formed bytes: more than a hundred errors are recorded before the budget is exhausted
    long_first = len(inputs)
    inputs += [[0xFF] * 150, [0x80, F.A] * 90, [F.A] * 200]
    long_opts = []
    for nb in (120, 330, 5000):
        for memo in (False, True):
            options.append(opt(maxexpr=nb, memo=memo))
            long_opts.append(len(options) - 1)
    run.add_witnesses([f["id"] for f in findings.active("C16")], groups, inputs, options)

    def plan_for(g):
        ois = [i for i in range(nopt) if not (g.maydiverge and (options[i]["memo"] or options[i]["maxexpr"] == -1))]   # F3: not run in bulk; no budget: never returns
        pl = [(ii, oi) for ii in range(nin) for oi in ois]
        if g.gi % 4 == 0:
            pl += [(ii, oi) for ii in range(long_first, long_first + 3) for oi in long_opts if not (g.maydiverge and options[oi]["memo"])]
        return pl
    run.keep_debug = True
    div, tot = run.execute(groups, inputs, options, plan_for, [[], ["-optimize-parser"]], timeout_ms=4000)
    t2_bind(run, 1500 if tier == "quick" else 10000)
    # design level: M under budgets, with Termination as a liveness property (weak fairness, lists abstracted to 2 elements).
    # (i) as the property demands (a memo hit is charged): every run terminates;
    bud = [i for i, o in enumerate(options[:nopt]) if o["maxexpr"] in (5, 12) and o["recover"]]
    strict = dict(ASBUILT, freehit=False, acccap=2)
    design_level(run, groups, inputs, options, lambda g: bud, 60 if tier == "quick" else 400, asbuilt=strict, liveness=True, inputs_idx=range(0, nin, 2), label="design_model_liveness")
    # (ii) as built (a memo hit is free, known finding F3): TLC must exhibit the non-terminating lasso on the diverging groups
    memo_bud = [i for i in bud if options[i]["memo"]]
    dg = [g for g in groups if g.maydiverge][:12]
    r_asbuilt = design_level(run, groups, inputs, options, lambda g: memo_bud, 12, subset=dg, asbuilt=dict(ASBUILT, acccap=2), liveness=True, inputs_idx=range(0, nin, 3), label="design_model_as_built_F3")
    run.notes = [x for x in run.notes if not x.startswith("design_model_as_built_F3")]
    run.cov["design_model_as_built_F3"]["lasso_found"] = r_asbuilt.get("violated") == "Termination"
    design_level(run, groups, inputs, options, lambda g: [i for i in range(nopt) if options[i]["maxexpr"] in (3, 9, 3000) and not options[i]["memo"] and options[i]["recover"]],
                 150 if tier == "quick" else 2000, inputs_idx=range(nin))
    import optproto
    optproto.report(run, tier, seed, with_design=True)     # the option protocol (Options.tla) stepped on real parser objects
    return std_finish(run, div, tot, "grammars whose repetitions iterate without consuming ((e?)*, (&e)+, (''/e)*, (e*)*, nested, under rules, with recovery) + random grammars x all inputs x budgets n = 1..N and 3000 x Memoize on/off (+ Recover(false)); verdicts: returned in time, budget error iff the meaning needs more than n evaluations (PegRef's count; 'diverges' = always), ExprCnt <= n+1, otherwise result identical to the unbounded meaning",
                      classify=classify_F3, extra=dict(budgets=maxb + 2, diverging_groups=sum(1 for g in groups if g.maydiverge)))


def check_C17(tier, seed, replay=None):
    """invalid UTF-8 is reported by default and matched bytewise when allowed"""
    run = Run("C17", tier, seed)
    run.decoys = True          # one parse in six gets every option twice (an overridden value first)
    FF = F.FFFD
    leaves = [("any",), ("cls", (FF,), (), False, False), ("cls", (F.A,), (), True, False), ("lit", (FF,), False), ("lit", (F.A,), False),
              ("lit", (F.A, F.EACUTE), False), ("cls", (F.EACUTE,), (), False, False)]
    trees = F.exhaustive(1, leaves)
    trees += [("action", ("seq", ("label", t), ("star", ("any",)))) for t in leaves]
    groups = F.groups_from_trees(trees)
    nrand = 100 if tier == "quick" else 150
    groups += F.random_groups(seed, nrand, F.RandCfg(depth=3, leaves=leaves, preds=True), gi0=len(groups) + 1)
    bts = [0x61, 0xC3, 0xA9, 0x80, 0xFF, 0xED, 0xA0, 0xEF, 0xBF, 0xBD, 0xC0, 0xAF]
    maxlen = 2 if tier == "quick" else 3
    inputs = F.all_inputs(bts, maxlen)
    rng = random.Random(seed)
    extra_len = maxlen + 1
    for _ in range(300 if tier == "quick" else 1500):
        inputs.append([rng.choice(bts + [0xF0, 0x9F, 0x98, 0x80, 0xE2, 0x82, 0xAC, 0x0A]) for _ in range(rng.randint(extra_len, extra_len + 2))])
    options = [opt(), opt(allowinv=True), opt(maxexpr=3000), opt(maxexpr=3000, allowinv=True)]
    nin = len(inputs)
    # left-recursive grammars on input with ill-formed bytes (errors of an abandoned growth attempt, then the same byte again)
    groups += F.lr_groups(seed + 5, 60 if tier == "quick" else 300, gi0=len(groups) + 1, pure=True)
    lr_first = len(inputs)
    inputs += F.all_inputs([F.NN, F.PLUS, 0xFF, 0x80], 4) + [[F.NN, F.PLUS, 0xFF, F.NN], [F.NN, F.MINUS, 0xFF], [F.NN, F.STAR_, 0x80, 120], [F.NN, F.MINUS, 0xC3], [F.NN, F.STAR_, 0xFF]]
    lrin = list(range(lr_first, len(inputs)))

    def plan_for(g):
        if "lr" in g.tags:
            return [(ii, oi) for ii in lrin for oi in (0, 1)]
        return [(ii, oi) for ii in range(nin) for oi in ((2, 3) if g.maydiverge else (0, 1))]
    div, tot = run.execute(groups, inputs, options, plan_for, FLAGSETS_2 + [["-optimize-basic-latin"]], lower=[[201, 233]])
    return std_finish(run, div, tot, "E(1) over {., [U+FFFD], [^a], \"U+FFFD\", \"a\", \"a e-acute\", [e-acute]} + labelled/actioned variants + random grammars x ALL byte strings up to the bound over {61 C3 A9 80 FF ED A0 EF BF BD C0 AF} (truncated sequences, overlongs, surrogates, stray continuations, the real U+FFFD) + longer random byte strings x AllowInvalidUTF8 on/off; values, texts, offsets, positions and the invalid-encoding errors compared with PegRef's transcription of utf8.DecodeRune",
                      extra=dict(inputs=len(inputs)))


# ------------------------------------------------------------------------------------------
def check_C08(tier, seed, replay=None):
    """left-recursive rules parse as the left-associative iteration they denote"""
    run = Run("C08", tier, seed)
    n, maxlen = (250, 4) if tier == "quick" else (600, 4)
    groups = F.lr_groups(seed, n)
    # a rule that is left-recursive directly AND through another rule whose name sorts before it: every cycle passes through
    # the directly recursive rule, so it is the leader whatever the names are
    from peg import Gram
    for variant in range(4):
        g = Gram(len(groups) + 1)
        g.tags.add("lr")
        call = g.choice([g.action(g.seq([g.label(g.ref(3)), g.lit([F.LP])])), g.action(g.lit([F.NN]))])
        rec = g.action(g.seq([g.label(g.ref(3)), g.lit([F.PLUS if variant % 2 == 0 else F.STAR_]), g.lit([F.NN])]))
        expr = g.choice([rec, g.ref(2)]) if variant < 2 else g.choice([rec, g.ref(2), g.seq([g.lit([F.LP]), g.ref(3)])])
        g.rules = [g.action(g.seq([g.label(g.ref(3)), g.un("opt", g.lit([120]))])), call, expr]
        g.lr = [0, 0, 2]
        g.disp = [""] * 3
        g.compute_args()
        g.maydiverge = False
        groups.append(g)
    inputs = F.all_inputs([F.NN, F.PLUS, F.STAR_, F.LP], maxlen)
    rng = random.Random(seed)
    for _ in range(200 if tier == "quick" else 600):
        inputs.append([rng.choice([F.NN, F.NN, F.PLUS, F.MINUS, F.STAR_, 94, F.LP, F.RP, 120]) for _ in range(rng.randint(maxlen + 1, maxlen + 4))])
    inputs += [[F.NN, op, F.NN, 120] for op in (F.PLUS, F.MINUS, F.STAR_)] + [[F.NN, F.PLUS, F.NN, F.PLUS, F.NN, 120], [F.NN, F.PLUS, F.NN, F.STAR_, F.NN, 120]]
    # ill-formed and multi-byte input right behind what a growth attempt consumes: the errors of an abandoned attempt
    # are dropped with it, those of the iteration the rule denotes are not
    inputs += [[F.NN, F.PLUS, 0xFF], [F.NN, F.PLUS, F.NN, F.PLUS, 0xFF], [F.NN, F.STAR_, 0x80, 120], [F.NN, F.PLUS, 0xFF, F.NN], [0xFF], [F.NN, 0xFF],
               [F.NN, F.MINUS, 0xC3], [F.NN, F.PLUS, 0xC3, 0xA9], [F.NN, F.STAR_, F.NN, F.PLUS, 0xFF], [F.LP, F.NN, F.PLUS, 0xFF]]
    options = [opt(), opt(memo=True), opt(debug=True), opt(debug=True, memo=True), opt(entry="@1", entryrule=1), opt(entry="@1", entryrule=1, memo=True)]
    nin = len(inputs)
    run.keep_debug = True
    import findings
    run.add_witnesses([f["id"] for f in findings.active("C08")], groups, inputs, options)
    div, tot = run.execute(groups, inputs, options, lambda g: [(ii, oi) for ii in range(nin) for oi in (0, 1)] + ([(ii, 2 + (ii % 2)) for ii in range(0, nin, 9)] if g.gi % 3 == 0 else []) +
                           ([(ii, 4 + (ii % 2)) for ii in range(0, nin, 2) if max(inputs[ii] or [0]) < 0x80] if g.lr and g.lr[0] > 0 and not any(n_["err"] for n_ in g.nodes) else []),      # Entrypoint = the left-recursive rule itself (success is observable only when no error is recorded: no error-returning blocks, well-formed input)
                           [["-support-left-recursion"], ["-support-left-recursion", "-optimize-parser"]], timeout_ms=8000)
    from rt import pairwise
    d2, npairs = pairwise(run, [(i, i + 1) for i in range(0, len(run.variants), 2)], fields=("status", "ok", "end", "val", "errs", "store"))
    div += d2
    # texts of more than a thousand operands (a memo table of more than a thousand rows) in between
    # short ones, in one process: the same calls in the opposite order (a fresh process) return the same, and so do Memoize and
    # -optimize-parser -- whatever a long parse leaves behind (tables, pools, buffers) must not reach the next one.  Real against
    # real: the reference evaluation in TLC is quadratic in the length of the text.
    run_l = Run("C08", tier, seed)
    from peg import Gram

    def tower(gi, kind):
        g = Gram(gi)
        g.tags.add("lr")
        n_ = lambda: g.lit([F.NN])
        act_ = lambda e_: e_          # no action on the recursive alternatives: the value of a long text stays linear in its length
        op = lambda c_: g.lit([c_])
        if kind == 0:       # E <- l:E '+' r:T {..} / l:E '-' r:T {..} / T ; T <- l:T '*' r:F {..} / F ; F <- 'n' {..}
            g.rules = [g.choice([act_(g.seq([g.label(g.ref(1)), op(F.PLUS), g.label(g.ref(2))])), act_(g.seq([g.label(g.ref(1)), op(F.MINUS), g.label(g.ref(2))])), g.ref(2)]),
                       g.choice([act_(g.seq([g.label(g.ref(2)), op(F.STAR_), g.label(g.ref(3))])), g.ref(3)]), g.action(n_())]
            g.lr = [2, 1, 0]
        elif kind == 1:     # through one other rule: E <- P / M / T ; P <- l:E '+' r:T {..} ; M <- l:E '-' r:T {..} ; T <- l:T '*' 'n' {..} / 'n'
            g.rules = [g.choice([g.ref(2), g.ref(3), g.ref(4)]), act_(g.seq([g.label(g.ref(1)), op(F.PLUS), g.label(g.ref(4))])),
                       act_(g.seq([g.label(g.ref(1)), op(F.MINUS), g.label(g.ref(4))])), g.choice([act_(g.seq([g.label(g.ref(4)), op(F.STAR_), n_()])), n_()])]
            g.lr = [2, 0, 0, 1]
        elif kind == 2:     # one level, every operator: E <- l:E [-+*] 'n' {..} / 'n'
            g.rules = [g.choice([act_(g.seq([g.label(g.ref(1)), g.cls((F.PLUS, F.MINUS, F.STAR_), (), False, False), n_()])), n_()])]
            g.lr = [1]
        else:               # growth steps that fail after consuming: E <- l:E [-+] r:F !'x' {..} / F ; F <- l:F '*' 'n'+ / 'n'+ {..}
            g.rules = [g.choice([act_(g.seq([g.label(g.ref(1)), g.cls((F.PLUS, F.MINUS), (), False, False), g.label(g.ref(2)), g.un("not", g.lit([120]))])), g.ref(2)]),
                       g.choice([g.seq([g.label(g.ref(2)), op(F.STAR_), g.un("plus", n_())]), g.action(g.un("plus", n_()))])]
            g.lr = [1, 1]
        g.disp = [""] * len(g.rules)
        g.compute_args()
        g.maydiverge = False
        return g
    lg = [tower(i + 1, i % 4) for i in range(4 if tier == "quick" else 8)]
    rl = random.Random(seed + 6)
    def long_text(nops):
        t = [F.NN]
        for _ in range(nops):
            t += [rl.choice([F.PLUS, F.PLUS, F.MINUS, F.STAR_]), F.NN]
        return t
    linputs = [long_text(1300), long_text(2), long_text(80), [F.NN], long_text(1), long_text(2600) if tier != "quick" else long_text(1150), long_text(5), [F.NN, F.PLUS]]
    # "sandwich": the runner parses the second half of each text (other content at the same offsets) before the call and again immediately after it (collector held
    # back): the two probes must agree, whatever the call in between put into a pool
    lopts = [opt(sandwich=True), opt(memo=True, sandwich=True)]
    lpig = P.build_pigeon()
    fwd = [[gx, ii, oi] for gx in range(len(lg)) for ii in range(len(linputs)) for oi in (0, 1)]
    bwd = list(reversed(fwd))
    lvars, lplans = [], []
    for fl in (["-support-left-recursion"], ["-support-left-recursion", "-optimize-parser"]):
        for pl_ in (fwd, bwd):
            lvars.append(P.Variant(len(lvars) + 1, "long%d" % len(lvars), lg, fl))
            lplans.append(pl_)

    def lprep(iv):
        v, pl_ = iv
        if not v.generate(lpig):
            raise P.Inconclusive("pigeon rejected the long-text pack: " + v.gen_err)
        if not v.build():
            raise P.Inconclusive("build failed: " + v.build_err)
        return v.run(linputs, lopts, pl_, timeout_ms=60000, mem_mb=8000)
    run_l.obs = P.parallel(lprep, list(zip(lvars, lplans)))
    run_l.variants, run_l.groups, run_l.inputs, run_l.options = lvars, lg, linputs, lopts
    from rt import load_obs as _lo
    for vx_ in range(len(lvars)):
        for key_, o_ in _lo(run_l.obs[vx_]).items():
            if o_.get("stale") or o_["status"] != "ok":
                run.violation(run_l.replay_path(dict(k=o_["k"], vi=lvars[vx_].vi, gi=key_[0], ii=key_[1], oi=key_[2], df="call-left-something-behind" if o_.get("stale") else o_["status"], at=0)),
                              "long text (group %d, %d bytes): %s" % (key_[0], len(linputs[key_[1] - 1]), "the same short parse returns something else right after this call than before it" if o_.get("stale") else o_["status"]))
    run_l.variants, run_l.groups, run_l.inputs, run_l.options = lvars, lg, linputs, lopts
    dl, nl = pairwise(run_l, [(0, 1), (2, 3), (0, 2)], fields=("status", "ok", "end", "val", "errs"))
    dm, nm = pairwise(run_l, [(0, 0), (2, 2)], fields=("status", "ok", "end", "val", "errs"), optmap={1: 2})
    for d in dl + dm:
        run.violation(run_l.replay_path(d), "long texts in between short ones: %s differs (group %d, input %d of %d bytes): call order / Memoize / -optimize-parser changed a result" % (
            d["df"], d["gi"], d["ii"], len(linputs[d["ii"] - 1])))
    npairs += nl + nm
    run.cov["long_texts"] = dict(groups=len(lg), bytes=[len(x) for x in linputs], pairs_compared=nl + nm)
    # design level: the seed-growing machine (parseRuleRecursiveLeader in M) refines the iterative meaning; T2 on the real Debug traces
    design_level(run, groups, inputs, options, lambda g: [0, 1], 60 if tier == "quick" else 600, inputs_idx=range(0, len(inputs), 4))
    t2_bind(run, 1500 if tier == "quick" else 10000)
    return std_finish(run, div, tot, "towers (height 1..3, like expr/term/factor) of rules A <- A a1/../A ak/b1/.. with direct and single-cycle indirect recursive alternatives, operands with actions, labels, state blocks, predicates and error-returning blocks; all inputs over {n,+,*,(} up to the bound + longer random ones; Memoize on/off, -optimize-parser on/off; ok, end, value, errors and final store must equal PegRef's iterative meaning, PegRef's events must be a subsequence of the observed ones",
                      extra=dict(pairs_compared=npairs))


# ------------------------------------------------------------------------------------------
def run_pigeon_each(groups, flags, pigeon):
    """the real command on each group's grammar text, one process each; returns list of (rc, stderr)"""
    import subprocess, tempfile
    d = tempfile.mkdtemp(prefix="each-", dir=P.workdir())
    from peg import pack_text

    def one(g):
        pth = os.path.join(d, "g%d.peg" % g.gi)
        with open(pth, "w") as f:
            f.write(pack_text([g]))
        p = subprocess.run([pigeon] + flags + ["-o", os.devnull, pth], stdout=subprocess.PIPE, stderr=subprocess.PIPE, env=P.ENV, timeout=120)
        os.remove(pth)
        return p.returncode, (p.stderr + p.stdout).decode(errors="replace")
    return P.parallel(one, groups, workers=16)


def check_C07(tier, seed, replay=None):
    """left recursion is detected: rejected by default, never silently accepted"""
    import findings
    from peg import dump_groups
    run = Run("C07", tier, seed)
    rng = random.Random(seed)
    specs = F.c07_specs(rng, 1200 if tier == "quick" else 12000)
    builders = [(lambda gi, sp=sp: F.c07_group(gi, sp)) for sp in specs]
    # dense left-call graphs: several left-recursive alternatives per rule, cycles with and without a common rule
    from peg import Gram as _G

    def dense(gi, sd):
        r_ = random.Random(sd)
        nr = r_.randint(2, 4)
        g = _G(gi)
        roots = []
        for ri in range(nr):
            alts = [g.seq([g.ref(r_.randint(1, nr)), g.lit([F.A + r_.randint(0, 1)])]) for _ in range(r_.randint(1, 3))] + [g.lit([F.B])]
            roots.append(g.choice(alts))
        g.rules = roots
        g.disp = [""] * nr
        g.compute_args()
        g.maydiverge = True
        return g
    for k_ in range(150 if tier == "quick" else 1500):
        builders.append(lambda gi, sd=seed * 1000 + k_: dense(gi, sd))
    special = []          # hand-written families come first (the accepted ones among the first 400 are also generated and run)
    def f22(gi):          # the witness of known finding F22 (a cycle that closes through a throw and a handler still in force)
        g = _G(gi)
        r1 = g.choice([g.recover(g.seq([g.lit([F.A]), g.throw("la")]), g.ref(3), ["la"]), g.lit([F.B])])
        r2 = g.seq([g.cls((), (), False, False), g.ref(1)])
        r3 = g.choice([g.recover(g.seq([g.un("star", g.lit([F.A])), g.throw("la")]), g.ref(2), ["la"]), g.lit([F.B])])
        g.rules = [r1, r2, r3]
        g.disp = [""] * 3
        g.compute_args()
        g.maydiverge = True
        return g
    special.append(f22)

    # a rule that is left-recursive only behind a NULLABLE RULE, which itself mentions the first rule after consuming input
    # (the nullable flags of rule references are cached per traversal; the verdict must not depend on the rule names' order)
    def nullable_rule_prefix(gi, pk, swap, tail):
        g = _G(gi)
        X, Pn = (2, 1) if swap else (1, 2)            # X: the recursive rule, Pn: the nullable prefix rule
        t = lambda: g.lit([F.A])
        pre = [lambda: g.un("opt", g.seq([t(), g.ref(X)])), lambda: g.un("star", g.seq([t(), g.ref(X)])), lambda: g.un("opt", t()),
               lambda: g.choice([g.seq([t(), g.ref(X)]), g.lit([])]), lambda: g.seq([g.un("opt", t()), g.un("opt", g.seq([g.lit([F.B]), g.ref(X)]))]),
               lambda: g.un("and", g.seq([t(), g.ref(X)])), lambda: g.un("opt", g.seq([g.ref(X), t()]))][pk]()
        rec = g.choice([g.seq([g.ref(Pn), g.ref(X)] + ([g.lit([F.B])] if tail else [])), g.lit([F.B])])
        g.rules = [pre, rec] if swap else [rec, pre]
        g.disp = [""] * 2
        g.compute_args()
        g.maydiverge = True
        return g
    for pk in range(7):
        for swap in (False, True):
            for tail in (False, True):
                special.append(lambda gi, pk=pk, swap=swap, tail=tail: nullable_rule_prefix(gi, pk, swap, tail))

    # ... the recursive rule itself NULLABLE, and the nullable prefix rule nullable only through a chain of further rules (so that
    # the analysis learns it one round after it has learnt that the recursive rule is nullable): X <- (P X 'b')? ; P <- Q ; Q <- 'a'?
    def nullable_chain(gi, xk, chain, order):
        g = _G(gi)
        t = lambda: g.lit([F.A])
        names = {"X": 1, "P": 2, "Q": 3, "R": 4}
        perm = [[1, 2, 3, 4], [4, 3, 2, 1], [2, 1, 4, 3]][order]             # which rule gets which index (names sort by index)
        ix = lambda nm: perm[names[nm] - 1]
        inner = g.seq([g.ref(ix("P")), g.ref(ix("X")), g.lit([F.B])])
        xbody = [lambda: g.un("opt", inner), lambda: g.choice([inner, g.lit([])]), lambda: g.un("star", inner), lambda: g.seq([g.un("opt", inner), g.un("opt", t())])][xk]()
        bodies = {"X": xbody, "P": g.ref(ix("Q")), "Q": g.ref(ix("R")) if chain == 2 else g.un("opt", t()), "R": g.un("opt", t())}
        rules = [None] * 4
        for nm, b in bodies.items():
            rules[ix(nm) - 1] = b
        g.rules = rules
        g.disp = [""] * 4
        g.compute_args()
        g.maydiverge = True
        return g
    for xk in range(4):
        for chain in (1, 2):
            for order in range(3):
                special.append(lambda gi, xk=xk, chain=chain, order=order: nullable_chain(gi, xk, chain, order))

    # left recursion confined to rules that the first rule does not reach (every rule can be an Entrypoint)
    def unreachable_lr(gi, kind):
        g = _G(gi)
        if kind == 0:
            g.rules = [g.lit([F.B]), g.choice([g.seq([g.ref(2), g.lit([F.A])]), g.lit([F.B])])]
        elif kind == 1:
            g.rules = [g.lit([F.B]), g.choice([g.seq([g.ref(3), g.lit([F.A])]), g.lit([F.B])]), g.choice([g.seq([g.ref(2), g.lit([F.A])]), g.lit([F.B])])]
        elif kind == 2:
            g.rules = [g.seq([g.lit([F.A]), g.ref(2)]), g.lit([F.B]), g.seq([g.un("opt", g.lit([F.A])), g.ref(3)])]
        else:
            g.rules = [g.ref(2), g.lit([F.B]), g.choice([g.seq([g.ref(1), g.lit([F.A])]), g.seq([g.ref(3), g.lit([F.B])]), g.lit([F.A])])]
        g.disp = [""] * len(g.rules)
        g.compute_args()
        g.maydiverge = True
        return g
    for kind in range(4):
        special.append(lambda gi, kind=kind: unreachable_lr(gi, kind))

    # a rule name defined twice: the last definition is the rule (for the analysis AND for the generated parser)
    def defined_twice(gi, live_lr):
        g = _G(gi)
        lrdef = lambda: g.choice([g.seq([g.ref(3), g.lit([F.A])]), g.lit([F.B])])
        plain = lambda: g.choice([g.seq([g.lit([F.A]), g.un("opt", g.ref(3))]), g.lit([F.B])])
        g.rules = [g.seq([g.ref(3), g.un("opt", g.lit([F.B]))]), plain() if live_lr else lrdef(), lrdef() if live_lr else plain()]
        g.idents = ["G%d_R1" % gi, "G%d_D" % gi, "G%d_D" % gi]
        g.disp = [""] * 3
        g.compute_args()
        g.maydiverge = True
        return g
    special.append(lambda gi: defined_twice(gi, False))
    special.append(lambda gi: defined_twice(gi, True))
    # a throw in one rule, the recovery operator that serves it in ANOTHER (recovery is dynamically scoped): when the recovery
    # expression can match the empty string the throw consumes nothing, and what follows it can lead back into an active rule
    def cross_rule_throw(gi, reck, tk, loopk):
        g = _G(gi)
        rec = [lambda: g.lit([]), lambda: g.un("opt", g.lit([F.A])), lambda: g.un("star", g.lit([F.A])), lambda: g.lit([F.A])][reck]()      # the last one consumes
        thr = [lambda: g.throw("la"), lambda: g.seq([g.un("opt", g.lit([F.A])), g.throw("la")]), lambda: g.choice([g.lit([F.A]), g.throw("la")])][tk]()
        # rule 1: the operator; rule 2: the loop through the throwing rule 3
        loop = [lambda: g.choice([g.seq([g.ref(3), g.ref(2)]), g.lit([F.B])]), lambda: g.seq([g.un("star", g.seq([g.ref(3), g.ref(2)])), g.lit([F.B])]),
                lambda: g.choice([g.seq([g.ref(3), g.lit([F.A]), g.ref(2)]), g.lit([F.B])])][loopk]()                                         # the last one consumes before it recurses
        g.rules = [g.recover(g.ref(2), rec, ["la"]), loop, thr]
        g.disp = [""] * 3
        g.compute_args()
        g.maydiverge = True
        return g
    for reck in range(4):
        for tk in range(3):
            for loopk in range(3):
                special.append(lambda gi, reck=reck, tk=tk, loopk=loopk: cross_rule_throw(gi, reck, tk, loopk))
    # a repetition whose body consumes nothing and STOPS succeeding because of the state store: `e+` / `e*` then end without
    # having consumed anything and what follows starts at the same offset (e+ is nullable when e is)
    def stateful_rep(gi, repk, predk, tailk):
        g = _G(gi)
        body = g.seq([g.state("inc", "x", 1), g.pred(predk == 1, "eq", "x", 1 if predk == 0 else 2)])      # succeeds exactly once
        rep = g.un(repk, body)
        tail = [lambda: g.ref(1), lambda: g.seq([g.un("opt", g.lit([F.A])), g.ref(1)])][tailk]()
        g.rules = [g.choice([g.seq([rep, tail, g.lit([F.A])]), g.lit([F.B])])]
        g.disp = [""]
        g.compute_args()
        g.maydiverge = True
        return g
    for repk in ("plus", "star"):
        for predk in (0, 1):
            for tailk in (0, 1):
                special.append(lambda gi, repk=repk, predk=predk, tailk=tailk: stateful_rep(gi, repk, predk, tailk))
    builders = special + builders
    groups = [b(i + 1) for i, b in enumerate(builders)]
    pigeon = P.build_pigeon()
    res = run_pigeon_each(groups, [], pigeon)
    obs, accepted = [], []
    for g, (rc, err) in zip(groups, res):
        lr = rc != 0 and ("recurs" in err.lower() or "leadership" in err)
        if "panic" in err and "goroutine" in err:
            raise P.Inconclusive("pigeon panicked on a C07 grammar: " + err[-400:])
        obs.append(dict(gi=g.gi, accepted=rc == 0, lrerror=bool(lr), other=rc != 0 and not lr, rc=rc))
        if rc == 0:
            accepted.append(g)
    inputs = F.all_inputs([F.A, F.B], 3)
    options = [opt(maxexpr=2000), opt(maxexpr=300, debug=True)]
    gp = os.path.join(P.workdir(), "groups.ndjson")
    dump_groups(groups, gp)
    tcase = dict(inputs=inputs, options=options, lower=[[0, 0]], uclass=[[0]], cmp=dict(store=True, errs=True, ctx=False, norm=False), kf=["-"], strict=[0])
    run.variants, run.groups, run.inputs, run.options = [P.Variant(1, "cmd", groups[:1], [])], groups, inputs, options
    div, tot = P.validate_t1(gp, tcase, [], shards=14, module="LeftRec", obsname="lrobs.ndjson",
                             lines=[json.dumps(o) + "\n" for o in obs], min_chunk=50)
    for d in div:
        d["vi"] = 1
        d["ii"] = max(d["ii"], 1)
    nacc, nrej = len(accepted), sum(1 for o in obs if o["lrerror"])
    # second half: parsers generated (without the flag) from accepted grammars never re-enter a rule at an offset
    # (PegRef: outcome "reentry"; real parser: stack overflow / budget / no return)
    run2 = Run("C07", tier, seed)
    acc2 = []
    for i, g in enumerate(accepted[: 400 if tier == "quick" else 4000]):
        g2 = builders[g.gi - 1](i + 1)
        acc2.append(g2)
    nin = len(inputs)
    run2.keep_debug = True
    d2, tot2 = run2.execute(acc2, inputs, options, lambda g: [(ii, 0) for ii in range(nin)] + [(ii, 1) for ii in range(nin)], [[]], timeout_ms=4000, pack_size=100)
    # the Debug traces of those runs, validated by TLC against the stack machine of TraceReentry.tla (invariant NoReentry)
    import re as _re
    rl = _re.compile(rb"^ *(>|<) \d+:\d+:(\d+): parseRule (\S+) \[")
    rtr = []
    for v in run2.variants:
        dbg = os.path.join(v.dir, "debug.txt")
        if not os.path.exists(dbg):
            continue
        plan = run2.plans[v.vi]
        cur = None
        with open(dbg, "rb") as f:
            for ln in f:
                if ln.startswith(b"@@BEGIN "):
                    kk = int(ln.split()[1])
                    gx, ii, oi = plan[kk - 1]
                    cur = dict(gi=v.groups[gx].gi, ii=ii + 1, evs=[])
                elif ln.startswith(b"@@END "):
                    if cur is not None:
                        rtr.append(cur)
                    cur = None
                elif cur is not None:
                    m_ = rl.match(ln)
                    if m_:
                        cur["evs"].append([m_.group(1).decode(), m_.group(3).decode(), int(m_.group(2))])
        os.remove(dbg)
    d3, tot3 = P.validate_t1(gp, dict(inputs=[[]], options=[opt()]), [], shards=12, module="TraceReentry", obsname="reentry.ndjson",
                             lines=[json.dumps(t) + "\n" for t in rtr], min_chunk=100) if rtr else ([], dict(n=0, states=0, transitions=0))
    f6 = {d["gi"] for d in div if d["df"] in ("accepted-left-recursion-F6", "accepted-left-recursion-F22")}
    for d in d3:
        if accepted[d["gi"] - 1].gi in f6:
            continue            # the run-time consequence of known findings F6 / F22 (the grammar should have been rejected)
        d["vi"], d["oi"] = run2.variants[0].vi, 2
        run.violation(run2.replay_path(d), "accepted grammar re-enters a rule at the same offset (Debug trace, line %d)" % d["at"])
    tot2 = dict(n=tot2["n"] + tot3["n"], states=tot2["states"] + tot3["states"], transitions=tot2["transitions"] + tot3["transitions"])
    # map back for replay files
    run.variants, run.obs = run2.variants, run2.obs
    for d in d2:
        run.violation(run2.replay_path(d), "accepted grammar: df=%s" % d["df"])
    tot = dict(n=tot["n"] + tot2["n"], states=tot["states"] + tot2["states"], transitions=tot["transitions"] + tot2["transitions"])
    run.stats = run2.stats
    run.variants = [P.Variant(1, "cmd", groups[:1], [])]
    return std_finish(run, div, tot, "every shape of a rule reference behind a prefix (nullable, optional, predicate, code block, empty literal, empty classes, repetition, choice, label, action, recovery) x 7 prefix expressions for a self-referring rule and for two mutually referring rules (exhaustive) + random 2-3 rule grammars; each through the real command (exit status, diagnostic); oracle: syntactic MayCycle (must accept without) and semantic re-entry witness of PegRef over all inputs <= 3 (must reject with); accepted grammars are generated and run on all inputs",
                      classify=classify_C07, extra=dict(accepted=nacc, rejected_left_recursion=nrej, accepted_run=len(acc2), reentry_traces_validated=len(rtr)))


def classify_C07(run, d):
    import findings
    if d["df"] == "accepted-left-recursion-F6":
        return "F6: " + findings.what("F6")
    if d["df"] == "accepted-left-recursion-F22":
        return "F22: " + findings.what("F22")
    if d["df"] == "model-drift":
        note = "model drift: LeftRecImpl.tla (transcription of pigeon's analysis) disagrees with the real command on some grammars; no verdict depends on it"
        if note not in run.notes:
            run.notes.append(note)
        return "-"
    return None


# ------------------------------------------------------------------------------------------
def check_C19(tier, seed, replay=None):
    """generation is deterministic: repeated runs and repeated in-process builds give identical bytes"""
    import subprocess, hashlib, re, tempfile
    from peg import dump_groups, pack_text
    run = Run("C19", tier, seed)
    rng = random.Random(seed)
    K = 8 if tier == "quick" else 40
    specs = F.c07_specs(rng, 300 if tier == "quick" else 3000)
    groups = [F.c07_group(i + 1, sp) for i, sp in enumerate(specs)]
    # the F8 witness and grammars with several cycles where a leader has to be chosen
    from peg import Gram
    def handwritten(gi, build):
        g = Gram(gi)
        build(g)
        g.disp = [""] * len(g.rules)
        g.compute_args()
        return g
    extra = []
    extra.append(handwritten(len(groups) + 1, lambda g: setattr(g, "rules", [
        g.choice([g.seq([g.ref(2), g.lit([F.A])]), g.lit([])]), g.seq([g.ref(1), g.ref(3)]), g.choice([g.seq([g.ref(2), g.lit([99])]), g.lit([100])])])))
    for _ in range(150 if tier == "quick" else 1500):
        nr = rng.randint(3, 4)
        sp = [(rng.choice(["X/e", "eX", "e?X", "X", "(e/'')X", "X{}", "l:X"]), rng.randint(1, nr), rng.choice(["a?", "''", "a"]), rng.random() < 0.8) for _ in range(nr)]
        extra.append(F.c07_group(len(groups) + len(extra) + 1, sp))
    # dense left-call graphs: several nested cycles, a leader has to be chosen (every rule starts each alternative with a reference)
    from peg import Gram as _G
    dense = []
    for _ in range(60 if tier == "quick" else 500):
        nr = rng.randint(3, 5)
        g = _G(len(groups) + len(extra) + len(dense) + 1)
        roots = []
        for ri in range(nr):
            alts = []
            for _a in range(rng.randint(1, 2)):
                alts.append(g.seq([g.ref(rng.randint(1, nr)), g.lit([F.A + rng.randint(0, 2)])]))
            alts.append(g.lit([F.B + ri]))
            roots.append(g.choice(alts))
        g.rules = roots
        g.disp = [""] * nr
        g.compute_args()
        dense.append(g)
    extra += dense
    groups += extra
    dense_ids = {g.gi for g in dense}
    # design level: which grammars are sensitive to the order in which rules are visited (TLC, all orders)
    gp = os.path.join(P.workdir(), "groups.ndjson")
    dump_groups(groups, gp)
    chunks = [groups[i::12] for i in range(12)]

    def tlc(chunk):
        pth = os.path.join(P.workdir(), "gr%d.ndjson" % chunk[0].gi)
        dump_groups(chunk, pth)
        return P.run_tlc("LeftRecOrders", P.T1_CFG, {"groups.ndjson": ("path", pth)}, workers=1, timeout=1800, heap="4g")
    res = P.parallel(tlc, [c for c in chunks if c], workers=12)
    sens, states, trans = [], 0, 0
    adv = []
    for r in res:
        if "DONE" not in r["out"]:
            raise P.Inconclusive("LeftRecOrders did not finish:\n" + r["out"][-2000:])
        for m in re.finditer(r'"SENS (.*)"', r["out"]):
            sens.append(json.loads(m.group(1).replace('\\"', '"'))["gi"])
        for m in re.finditer(r'"ADV (.*)"', r["out"]):
            adv.append(json.loads(m.group(1).replace('\\"', '"'))["gi"])
        states += r.get("distinct", 0)
        trans += r.get("generated", 0)
    nsens = len(set(sens))
    sens_set = set(sens) | set(adv)        # order-sensitive now (none expected since the repair of F28) or before it (adversarial)
    chosen = [g for g in groups if g.gi in sens_set or g.gi in dense_ids]
    others = [g for g in groups if g.gi not in sens_set and g.gi not in dense_ids]
    rng.shuffle(others)
    chosen += others[: (60 if tier == "quick" else 600)]
    pigeon = P.build_pigeon()
    flagsets = [["-support-left-recursion"], ["-support-left-recursion", "-optimize-parser"], ["-support-left-recursion", "-optimize-grammar"]]
    d = tempfile.mkdtemp(prefix="c19-", dir=P.workdir())
    texts = {}
    jobs = []
    for g in chosen:
        pth = os.path.join(d, "g%d.peg" % g.gi)
        g.oneline = g.gi % 2 == 0          # every second grammar has all its rules on one source line (nothing may be keyed by the line alone)
        texts[g.gi] = pack_text([g])
        with open(pth, "w") as f:
            f.write(texts[g.gi])
        for fi, fl in enumerate(flagsets if (g.gi in sens_set or g.gi in dense_ids or g.gi % 4 == 0) else flagsets[:1]):
            jobs.append((g, pth, fl))
    # the optimizer's own maps: merged character classes with repeated Unicode classes, inlined leaf rules (idiom family)
    ucl_names = ["Lu", "Ll", "Nd", "L", "N", "Greek", "Latin", "Zs", "P"]
    optg = []
    for oi_ in range(30 if tier == "quick" else 300):
        g = Gram(len(groups) + 1000 + oi_)
        alts = []
        for _a in range(rng.randint(2, 4)):
            txt = "[" + "".join(rng.choice(["a", "b", "0", "x"]) for _ in range(rng.randint(0, 2))) + \
                  "".join(("\\p{%s}" % u) for u in rng.sample(ucl_names, rng.randint(1, 3))) + "]" + ("i" if rng.random() < 0.2 else "")
            alts.append(g.mk(k="cls", want=list(txt.encode())))
        g.rules = [g.choice(alts)]
        g.disp = [""]
        g.compute_args()
        optg.append(g)
    optg += c09_idiom_groups(seed + 9, 20 if tier == "quick" else 200, len(groups) + 5000)
    # dead rules that reference several rules nothing else uses: the optimizer removes them in rounds, releasing what they used
    for fan in (2, 3, 4, 3, 2, 4):
        g = Gram(len(groups) + 8000 + len(optg))
        leafs = [g.choice([g.lit([F.A + j]), g.cls((F.B,), (), False, False)]) for j in range(fan)]
        dead = g.seq([g.ref(3 + j) for j in range(fan)])
        dead2 = g.choice([g.ref(2), g.ref(3)])
        g.rules = [g.action(g.lit([F.A])), dead] + leafs + [dead2]
        g.disp = [""] * len(g.rules)
        g.compute_args()
        optg.append(g)
    thr = F.random_groups(seed + 13, 40 if tier == "quick" else 300, F.RandCfg(depth=4, maxrules=3, throw=True), gi0=len(groups) + 9000)
    for g in thr:                  # recovery operators with several labels
        pth = os.path.join(d, "t%d.peg" % g.gi)
        texts[g.gi] = pack_text([g])
        with open(pth, "w") as f:
            f.write(texts[g.gi])
        jobs.append((g, pth, []))
        jobs.append((g, pth, ["-optimize-parser"]))
    # the same label bound several times in one scope, next to other labels, before a code block (the parameter list of the
    # emitted method is derived from the labels in scope: whatever it is, it is a function of the text)
    replab = []
    for ri_ in range(40 if tier == "quick" else 300):
        g = Gram(len(groups) + 12000 + ri_)
        pool = ["k", "v", "sep", "w", "x"][: rng.randint(2, 5)]
        items = []
        for _ in range(rng.randint(3, 7)):
            e = g.lit([F.A + rng.randint(0, 2)])
            if rng.random() < 0.75:
                e = g.label(e, rng.choice(pool))
            if rng.random() < 0.2:
                e = g.seq([g.label(g.lit([F.B]), rng.choice(pool)), g.pred(False, "true"), e]) if rng.random() < 0.5 else g.un("opt", g.action(g.label(e, rng.choice(pool)) if g.N(e)["k"] != "label" else e))
            items.append(e)
        g.rules = [g.action(g.seq(items))]
        g.disp = [""]
        g.dup_labels = True             # keep the repeated names (these grammars are only generated, never compiled)
        g.compute_args()
        replab.append(g)
    for g in replab:
        pth = os.path.join(d, "l%d.peg" % g.gi)
        texts[g.gi] = pack_text([g])
        with open(pth, "w") as f:
            f.write(texts[g.gi])
        jobs.append((g, pth, []))
        jobs.append((g, pth, ["-optimize-parser", "-optimize-grammar", "-alternate-entrypoints", g.sname()]))
    for g in optg:
        pth = os.path.join(d, "o%d.peg" % g.gi)
        texts[g.gi] = pack_text([g])
        with open(pth, "w") as f:
            f.write(texts[g.gi])
        ep = ["-alternate-entrypoints", g.sname()]
        jobs.append((g, pth, ["-optimize-grammar"] + ep))
        jobs.append((g, pth, ["-optimize-grammar", "-optimize-basic-latin"] + ep))
    # big packs: many rules (maps beyond one bucket), with the optimizer
    for bi in range(3 if tier == "quick" else 12):
        pk = others[bi * 40:(bi + 1) * 40]
        if not pk:
            continue
        pth = os.path.join(d, "pack%d.peg" % bi)
        with open(pth, "w") as f:
            f.write(pack_text(pk))
        for fl in (["-support-left-recursion"], ["-support-left-recursion", "-optimize-grammar", "-alternate-entrypoints", ",".join(x.sname() for x in pk)]):
            jobs.append((pk[0], pth, fl))

    def runk(job):
        g, pth, fl = job
        outs = set()
        rcs = set()
        for _ in range(K):
            p = subprocess.run([pigeon] + fl + [pth], stdout=subprocess.PIPE, stderr=subprocess.PIPE, env=P.ENV, timeout=120)
            outs.add(hashlib.sha256(p.stdout + b"|" + p.stderr).hexdigest())
            rcs.add(p.returncode)
        # the file named by -o: the same bytes whether the file is new or already exists with other (longer) content
        if p.returncode == 0:
            of = pth + ".%s.go" % hashlib.sha1(" ".join(fl).encode()).hexdigest()[:6]
            for stale in (None, p.stdout + b"\n// stale\n" * 400, b"x"):
                if stale is None:
                    if os.path.exists(of):
                        os.remove(of)
                else:
                    with open(of, "wb") as f:
                        f.write(stale)
                q = subprocess.run([pigeon] + fl + ["-o", of, pth], stdout=subprocess.PIPE, stderr=subprocess.PIPE, env=P.ENV, timeout=120)
                outs.add(hashlib.sha256(open(of, "rb").read() + q.stdout + b"|" + q.stderr).hexdigest())
                rcs.add(q.returncode)
            os.remove(of)
        return len(outs), sorted(rcs)
    res = P.parallel(runk, jobs, workers=16)
    nviol = 0
    # the file named by -o next to other files of the same package: what is in that directory is not an input of the generation
    # (the import pass must not consult the neighbours: a name like rand has several candidates)
    dd = os.path.join(d, "dice")
    os.makedirs(dd)
    with open(os.path.join(dd, "helper.go"), "w") as f:
        f.write("package main\n\nimport \"math/rand\"\n\nfunc roll() int { return rand.Intn(6) }\n")
    dpeg = os.path.join(d, "dice.peg")
    with open(dpeg, "w") as f:
        f.write("{\npackage main\n}\nA <- 'a' { return rand.Float64() + float64(roll()), nil }\n")
    p1 = subprocess.run([pigeon, dpeg], stdout=subprocess.PIPE, stderr=subprocess.PIPE, env=P.ENV, timeout=120)
    p2 = subprocess.run([pigeon, "-o", os.path.join(dd, "dice.go"), dpeg], stdout=subprocess.PIPE, stderr=subprocess.PIPE, env=P.ENV, timeout=120)
    got = open(os.path.join(dd, "dice.go"), "rb").read() if os.path.exists(os.path.join(dd, "dice.go")) else b""
    if p1.returncode != p2.returncode or (p1.returncode == 0 and got != p1.stdout):
        nviol += 1
        rd = os.path.join(P.VERIF, "replays", "C19")
        os.makedirs(rd, exist_ok=True)
        rp = os.path.join(rd, "neighbours.json")
        json.dump(dict(property="C19", grammar=open(dpeg).read(), verdict="the generated file depends on the other files of the output directory",
                       stdout_imports=[l for l in p1.stdout.decode(errors="replace").splitlines() if "rand" in l][:3],
                       file_imports=[l for l in got.decode(errors="replace").splitlines() if "rand" in l][:3]), open(rp, "w"), indent=1)
        run.violation(rp, "output depends on the neighbours of the -o file")
    for (g, pth, fl), (nd, rcs) in zip(jobs, res):
        if nd > 1:
            nviol += 1
            rd = os.path.join(P.VERIF, "replays", "C19")
            os.makedirs(rd, exist_ok=True)
            rp = os.path.join(rd, "nondet_%d_%s.json" % (g.gi, hashlib.sha1(" ".join(fl).encode()).hexdigest()[:6]))
            json.dump(dict(property="C19", grammar=open(pth).read(), flags=fl, runs=K, distinct_outputs=nd, exit_codes=rcs), open(rp, "w"), indent=1)
            run.violation(rp, "%d distinct outputs in %d runs" % (nd, K))
    # repeated builds inside one process (hook)
    pv = P.build_pigeon("verif")
    reqs = []
    for i, g in enumerate(chosen + optg[:40]):
        reqs.append(json.dumps(dict(id=g.gi, text=list(texts[g.gi].encode()), times=K, lr=True, optimize=(i % 2 == 0), entry=[g.sname()],
                                    optparser=(i % 3 == 0), latin=(i % 3 == 1))))          # the hook builds its option values once and uses them for all K builds
    p = subprocess.run([pv], input=("\n".join(reqs) + "\n").encode(), stdout=subprocess.PIPE, stderr=subprocess.PIPE, env=dict(P.ENV, PIGEON_VERIF="rebuild"), timeout=1800)
    if p.returncode != 0:
        raise P.Inconclusive("hook failed: " + p.stderr.decode(errors="replace")[-500:])
    inproc = 0
    # ... and what a build returns does not depend on what the process has built BEFORE: every request is also served by a fresh
    # process of its own (one build), which must give the digest of the builds made after all the earlier grammars
    def alone(rq):
        one_ = dict(json.loads(rq), times=1)
        q = subprocess.run([pv], input=(json.dumps(one_) + "\n").encode(), stdout=subprocess.PIPE, stderr=subprocess.PIPE, env=dict(P.ENV, PIGEON_VERIF="rebuild"), timeout=600)
        if q.returncode != 0:
            raise P.Inconclusive("hook failed: " + q.stderr.decode(errors="replace")[-500:])
        return json.loads(q.stdout.decode().splitlines()[0]).get("digests", [])
    fresh = P.parallel(alone, reqs, workers=16)
    for ln, fr in zip(p.stdout.decode().splitlines(), fresh):
        r = json.loads(ln)
        inproc += 1
        if fr and r.get("digests") and set(fr) != set(r["digests"][:1]) and len(set(r["digests"])) == 1:
            rd = os.path.join(P.VERIF, "replays", "C19")
            os.makedirs(rd, exist_ok=True)
            rp = os.path.join(rd, "inproc_history_%d.json" % r["id"])
            json.dump(dict(property="C19", grammar=texts[r["id"]], request=json.loads(reqs[inproc - 1]) | dict(text="(see grammar)"), digest_after_other_builds=r["digests"][0], digest_in_a_fresh_process=fr[0]), open(rp, "w"), indent=1)
            run.violation(rp, "a build made after other builds in the same process differs from the same build in a fresh process")
        if len(set(r.get("digests", []))) > 1:
            rd = os.path.join(P.VERIF, "replays", "C19")
            os.makedirs(rd, exist_ok=True)
            rp = os.path.join(rd, "inproc_%d.json" % r["id"])
            json.dump(dict(property="C19", grammar=texts[r["id"]], digests=r["digests"]), open(rp, "w"), indent=1)
            run.violation(rp, "in-process builds differ")
    cov = dict(evaluations=len(jobs) * K + inproc * K, distinct_nontrivial=len(chosen), states=max(states, 1), transitions=max(trans, 1),
               rule="TLC (LeftRecOrders.tla) evaluates pigeon's transcribed analysis under every rule-visiting order for each grammar of the C07 family and reports the order-sensitive ones; those (all flag sets), a sample of the others, and packs of 40 groups (> 80 rules, with -optimize-grammar) are run K times through the real command (Go randomises map iteration per process) and K times inside one process through the hook; outputs must be byte-identical; non-trivial = a grammar with at least one rule reference",
               samples=[dict(grammar=texts[g.gi], order_sensitive=g.gi in sens_set) for g in chosen[:3]],
               order_sensitive_grammars=nsens, adversarial_grammars_order_sensitive_before_F28=len(set(adv)), grammars_run=len(chosen), command_jobs=len(jobs), runs_per_job=K, inprocess_requests=inproc)
    return run.finish("exploration", cov, ["schedules (map iteration orders) are sampled on the real code, enumerated only in the model"])


# ------------------------------------------------------------------------------------------
C15_CHARS = [0x40, 0x41, 0x5A, 0x5B, 0x5C, 0x60, 0x61, 0x7A, 0x7B, 0x4B, 0x6B, 0x53, 0x73, 0x49, 0x69, 0x30, 0x39, 0x20, 0x7F, 0x0A,
             0x212A, 0x17F, 0x130, 0x131, 0xE9, 0xC9, 0xDF, 0x3A3, 0x3C3, 0x3C2, 0x1C5, 0xFFFD]
C15_UCL = ["Lu", "Ll", "L", "N", "Nd", "Latin", "Greek", "P", "Zs", "Lt", "Cc"]


def c15_class(rng):
    nm = rng.randint(0, 3)
    chars = [rng.choice(C15_CHARS) for _ in range(nm)]
    rngs = []
    for _ in range(rng.randint(0, 2)):
        a, b = rng.choice(C15_CHARS), rng.choice(C15_CHARS)
        if rng.random() < 0.85 and a > b:
            a, b = b, a
        rngs += [a, b]
    ucl = [rng.choice(C15_UCL) for _ in range(rng.choice([0, 0, 1, 1, 2]))]
    return chars, rngs, ucl, rng.random() < 0.5, rng.random() < 0.6


def c15_text(chars, rngs, ucl, inv, ic):
    from peg import cls_char
    s = "[" + ("^" if inv else "")
    for i in range(0, len(rngs), 2):
        s += cls_char(rngs[i]) + "-" + cls_char(rngs[i + 1])
    s += "".join(cls_char(c) for c in chars)
    for u in ucl:
        s += ("\\p" + u) if len(u) == 1 else ("\\p{" + u + "}")
    return s + "]" + ("i" if ic else "")


def class_runs(run, tier, seed, flagsets, nrand=None):
    """the character-class family of C15 (also the class part of C01): builds the classes, generates one parser per
    pack and flag set, runs every class on every input; returns (classes, groups, inputs, options, variants, ucl_names)"""
    from peg import Gram
    rng = random.Random(seed)
    n = nrand if nrand is not None else (400 if tier == "quick" else 3000)
    classes = []
    # exhaustive part: every single member / single range over the boundary alphabet, all four flag combinations
    small = [0x40, 0x41, 0x5A, 0x5B, 0x60, 0x61, 0x7A, 0x7B, 0x212A, 0x17F, 0x130]
    for inv in (False, True):
        for ic in (False, True):
            for a in small:
                classes.append(([a], [], [], inv, ic))
                if tier != "quick" or ic:
                    for b in small:
                        classes.append(([], [a, b], [], inv, ic))
            # every Unicode class name the front-end accepts (its Basic Latin members come from range tables with strides,
            # LatinOffset shortcuts, ...): alone, so that no other member covers the rune
            for u in (unicode_class_names() if (not ic or tier != "quick") else C15_UCL):
                classes.append(([], [], [u], inv, ic))
    # the witnesses of the repaired defect F15
    classes += [([], [0x5A, 0x61], [], False, True), ([], [0x40, 0x5A], [], False, True), ([0x212A], [], [], False, True),
                ([0x130], [], [], False, True), ([], [], ["Lu"], False, True)]
    for _ in range(n):
        classes.append(c15_class(rng))
    # spellings with a dash next to a range, at the ends, after an escape: (text, chars, ranges) given explicitly
    spelled = [("[_a-c-e]", [95, 45, 101], [97, 99]), ("[xa-c-e]", [120, 45, 101], [97, 99]), ("[^xa-c-e]", [120, 45, 101], [97, 99]),
               ("[a-c-e]", [45, 101], [97, 99]), ("[a-z0-9-_]", [45, 95], [97, 122, 48, 57]), ("[-a]", [45, 97], []), ("[a-]", [97, 45], []),
               ("[_a-c-e]i", [95, 45, 101], [97, 99]), ("[a-c_-]", [95, 45], [97, 99]), ("[\\x2da-c]", [45], [97, 99]), ("[+--]", [], [43, 45]),
               ("[--0]", [], [45, 48]), ("[_a-cd-f-h]", [95, 45, 104], [97, 99, 100, 102])]
    for (txt, chars, rngs) in spelled:
        classes.append((chars, rngs, [], txt.startswith("[^"), txt.endswith("i"), txt))
    groups = []
    ucl_names = []

    def ucl_ix(u):
        if u not in ucl_names:
            ucl_names.append(u)
        return ucl_names.index(u) + 1
    for i, cl_ in enumerate(classes):
        chars, rngs, ucl, inv, ic = cl_[:5]
        g = Gram(i + 1)
        txt = cl_[5] if len(cl_) > 5 else c15_text(chars, rngs, ucl, inv, ic)
        g.rules = [g.mk(k="cls", s=list(chars), rng=list(rngs), inv=inv, ic=ic, want=list(txt.encode()), ucl=[ucl_ix(u) for u in ucl])]
        g.disp = [""]
        g.compute_args()
        g.maydiverge = False
        groups.append(g)
    inputs = [[r] for r in range(128)]
    for r in [0x212A, 0x17F, 0x130, 0x131, 0xE9, 0xC9, 0xDF, 0x3A3, 0x3C3, 0x1C5, 0xFFFD, 0x20AC, 0x1F600]:
        inputs.append(list(chr(r).encode()))
    inputs += [[0x80], [0xFF], [0xC3], [0xED, 0xA0, 0x80], [0xC0, 0xAF], []]
    options = [opt(), opt(allowinv=True)]
    nin = len(inputs)
    pigeon = P.build_pigeon()
    packs = [groups[i:i + 400] for i in range(0, len(groups), 400)]
    variants = []
    for pi, pk in enumerate(packs):
        for fl in flagsets:
            variants.append(P.Variant(len(variants) + 1, "p%d" % pi, pk, fl))

    def prep(v):
        if not v.generate(pigeon):
            raise P.Inconclusive("pigeon rejected a pack of character classes: " + v.gen_err)
        if not v.build():
            raise P.Inconclusive("build failed: " + v.build_err)
        plan = [[gx, ii, oi] for gx in range(len(v.groups)) for ii in range(nin) for oi in (0, 1)]
        return v.run(inputs, options, plan)
    run.obs = P.parallel(prep, variants)
    run.variants, run.groups, run.inputs, run.options = variants, groups, inputs, options
    return classes, groups, inputs, options, variants, ucl_names


def class_meaning(run, tier, seed, classes, groups, inputs, options, variants, ucl_names, which):
    """the observations of the variants `which` against the MEANING of the class (PegRef.InClass): membership, ^, and i,
    where the case forms of the runes and the members of the Unicode classes are exported from Go's unicode package for
    exactly the runes in play.  returns (divergences, totals)"""
    from peg import dump_groups
    runes = set()
    for inp in inputs:
        try:
            runes |= {ord(ch) for ch in bytes(inp).decode("utf-8")}
        except UnicodeDecodeError:
            pass
    for cl_ in classes:
        runes |= set(cl_[0]) | set(cl_[1])
    runes.add(0xFFFD)
    ut = unitab(sorted(runes), ucl_names)
    gp = os.path.join(P.workdir(), "classgroups.ndjson")
    dump_groups(groups, gp)
    tcase = dict(inputs=inputs, options=options, lower=ut["rows"], uclass=ut["members"] or [[0]], cmp=dict(store=True, errs=True, ctx=False, norm=False), kf=["-"], strict=[0])
    run.tcase = tcase
    return P.validate_t1(gp, tcase, [run.obs[ix] for ix in which], shards=12)


def check_C15(tier, seed, replay=None):
    """-optimize-basic-latin is a pure optimisation of character classes (real vs real, all 128 runes)"""
    from rt import pairwise
    run = Run("C15", tier, seed)
    classes, groups, inputs, options, variants, ucl_names = class_runs(run, tier, seed, [[], ["-optimize-basic-latin"], ["-optimize-parser"], ["-optimize-parser", "-optimize-basic-latin"]])
    pairs = [(i, i + 1) for i in range(0, len(variants), 2)]
    div, npairs = pairwise(run, pairs, fields=("status", "ok", "end", "val", "errs"))
    nviol = 0
    for d in div:
        nviol += 1
        if nviol <= 25:
            run.violation(run.replay_path(d), "class %s input %s: with/without -optimize-basic-latin differ (%s)" % (
                bytes(groups[d["gi"] - 1].N(groups[d["gi"] - 1].rules[0])["want"]).decode(), inputs[d["ii"] - 1], d["df"]))
    # classes that the grammar optimizer BUILDS (a choice of one-character literals becomes a class whose text is put together
    # from the characters, unescaped) next to written classes with the same text: "^" / "$" and [^$], "a" / "-" / "f" and [a-f],
    # "\\" / "n" and [\n], ...; whatever the table of a class is keyed by, each class decides like its general procedure
    from peg import Gram
    run_x = Run("C15", tier, seed)
    coll = [([94, 36], "[^$]"), ([97, 45, 102], "[a-f]"), ([94, 97], "[^a]"), ([92, 110], "[\\n]"), ([94, 45, 122], "[^-z]"), ([48, 45, 57], "[0-9]"),
            ([92, 93], "[\\]]"), ([94, 94], "[^^]"), ([65, 45, 90], "[A-Z]"), ([92, 112, 76], "[\\pL]"), ([94, 92, 110], "[^\\n]"), ([92, 120, 52, 49], "[\\x41]")]
    xg = []
    for order in (0, 1):
        for chars_, txt_ in coll:
            g = Gram(len(xg) + 1)
            built = g.choice([g.lit([c_]) for c_ in chars_])
            written = g.mk(k="cls", want=list(txt_.encode()))
            g.rules = [built, written] if order == 0 else [written, built]
            g.disp = ["", ""]
            g.compute_args()
            g.maydiverge = False
            xg.append(g)
    xopts = [opt(entry="@1"), opt(entry="@2")]
    xpig = P.build_pigeon()
    names_ = ",".join(g.rname(i + 1) for g in xg for i in range(2))
    xvars = [P.Variant(i + 1, "x%d" % i, xg, fl + ["-alternate-entrypoints", names_]) for i, fl in enumerate(
        [["-optimize-grammar"], ["-optimize-grammar", "-optimize-basic-latin"], ["-optimize-grammar", "-optimize-parser"], ["-optimize-grammar", "-optimize-parser", "-optimize-basic-latin"]])]

    def xprep(v):
        if not v.generate(xpig):
            raise P.Inconclusive("pigeon rejected the pack of built/written classes: " + v.gen_err)
        if not v.build():
            raise P.Inconclusive("build failed: " + v.build_err)
        return v.run(inputs, xopts, [[gx, ii, oi] for gx in range(len(xg)) for ii in range(len(inputs)) for oi in (0, 1)])
    run_x.obs = P.parallel(xprep, xvars)
    run_x.variants, run_x.groups, run_x.inputs, run_x.options = xvars, xg, inputs, xopts
    dx, nx = pairwise(run_x, [(0, 1), (2, 3)], fields=("status", "ok", "end", "val", "errs"))
    for d in dx:
        nviol += 1
        if nviol <= 25:
            run.violation(run_x.replay_path(d), "a class built by -optimize-grammar next to a written class with the same text (%s): with/without -optimize-basic-latin differ (%s)" % (
                xg[d["gi"] - 1].text().replace("\n", " ; "), d["df"]))
    npairs += nx
    cov = dict(programs=len(variants) + len(xvars), disagreements_checked=npairs, evaluations=npairs, distinct_nontrivial=len(classes) + len(xg),
               rule="character classes: every single member and every single range over the case-boundary alphabet {@ A Z [ ` a z { KELVIN LONG-S DOTTED-I} and every Unicode class of a list, in all four ^/i combinations (exhaustive), the witnesses of the repaired defect F15, and random classes with up to 3 members, 2 ranges, 2 Unicode classes; inputs: ALL 128 Basic Latin runes, 13 non-ASCII runes, 5 ill-formed byte strings, the empty input, with AllowInvalidUTF8 on/off; the parser generated with the flag must decide exactly like the one generated without it (also under -optimize-parser)",
               samples=[dict(cls=bytes(g.N(g.rules[0])["want"]).decode()) for g in groups[:: max(1, len(groups) // 8)][:8]],
               classes=len(classes), decisions_compared=npairs, violating=nviol, exhaustive=False)
    return run.finish("translation_validation", cov, ["real-vs-real as the statement says; the verdict does not depend on any model of case folding (the MEANING of the same classes is judged by C01)"])


# ------------------------------------------------------------------------------------------
def unitab(runes, classes):
    """case forms of the runes and members of the Unicode classes, from Go's unicode package (runner/unitab.go.txt)"""
    import subprocess, tempfile
    d = tempfile.mkdtemp(prefix="unitab-", dir=P.workdir())
    shutil.copy(os.path.join(P.VERIF, "runner", "unitab.go.txt"), os.path.join(d, "unitab.go"))
    p = subprocess.run(["go", "run", "unitab.go"], cwd=d, input=json.dumps(dict(runes=runes, classes=classes)).encode(),
                       stdout=subprocess.PIPE, stderr=subprocess.PIPE, env=P.ENV, timeout=300)
    if p.returncode != 0:
        raise P.Inconclusive("unitab failed: " + p.stderr.decode(errors="replace")[-500:])
    return json.loads(p.stdout)


def unicode_class_names():
    import re
    src = open(os.path.join(P.REPO, "unicode_classes.go")).read()
    return re.findall(r'^\s*"(\w+)":\s*true', src, re.M)


def c04_groups(seed, tier):
    from peg import Gram
    rng = random.Random(seed)
    groups = []

    def add(g):
        g.disp = [""] * len(g.rules)
        g.compute_args()
        g.maydiverge = False
        groups.append(g)
        return g
    # (a) adversarial rule names: one a prefix+digits of the other, blocks at many expression indices
    for t in range(6 if tier == "quick" else 30):
        g = Gram(len(groups) + 1)
        pre = "N%d" % g.gi
        names = rng.sample(["A", "A1", "A11", "B", "B_1", "B_", "A_1", "a1", "Ab2"], 4)
        g.idents = [pre + n for n in names]
        roots = []
        for ri in range(4):
            items = []
            for j in range(rng.randint(1, 6)):
                e = g.lit([F.A + j % 3])
                if rng.random() < 0.5:
                    e = g.action(e)
                items.append(e)
            if ri < 3 and rng.random() < 0.7:
                items.append(g.ref(ri + 2))
            roots.append(g.seq(items) if len(items) > 1 else items[0])
        g.rules = roots
        add(g)
    # (a2) rule names that differ only in letter case, in underscores or by a non-ASCII letter, with the SAME shape (so that
    # their code blocks have the same expression indices): the method names derived from them must still be distinct
    for fam in (["Ident", "ident", "IDENT", "iDent"], ["Ab_c", "A_bc", "Abc_", "Abc"], ["\u00c9l", "\u00e9l", "El", "el"], ["X", "x", "X_", "_x"]):
        g = Gram(len(groups) + 1)
        g.idents = [n + ("%d" % g.gi if n[-1] != "_" else "q%d" % g.gi) for n in fam]
        roots = []
        for ri in range(4):
            alts = [g.action(g.lit([F.A + j])) for j in range(2)] + [g.seq([g.pred(False, "true"), g.action(g.lit([F.B]))])]
            if ri < 3:
                alts.append(g.seq([g.lit([120]), g.ref(ri + 2)]))
            roots.append(g.choice(alts))
        g.rules = roots
        add(g)
    # (b) labels in every scoping construct, shared between alternatives, nested
    cfg = F.RandCfg(depth=4, maxrules=3, preds=True, state=True, cloner=True, throw=True)
    for i in range(25 if tier == "quick" else 150):
        g = F.random_group(rng, len(groups) + 1, cfg)
        groups.append(g)
    cfg3 = F.RandCfg(depth=4, maxrules=2, preds=True, labpool=["k", "v", "w"])       # the same label name in nested scopes
    for i in range(15 if tier == "quick" else 80):
        groups.append(F.random_group(rng, len(groups) + 1, cfg3))
    sh = [("lit", (F.A,), False), ("any",)]
    for t in [("shadow", a, b, c) for a in sh for b in sh for c in sh] + [("shadow", a, b, ("lit", (), False), ("pred", False, "true")) for a in sh for b in sh]:
        groups += F.groups_from_trees([t], gi0=len(groups) + 1)
    # state blocks that only occur under a predicate (directly, or in a helper rule that is only used under one): the state
    # runtime is still needed by the emitted blocks, whatever the flags
    predstate = []
    for k_ in range(6):
        g = Gram(len(groups) + 1)
        predstate.append(g)
        st_ = lambda: g.seq([g.state("set", "x", 1), g.lit([F.A])])
        if k_ < 3:
            g.rules = [g.action(g.seq([g.un(["and", "not", "and"][k_], st_() if k_ < 2 else g.seq([g.un("not", st_()), g.any()])), g.un("star", g.any())]))]
        else:
            g.rules = [g.action(g.seq([g.un(["and", "not", "not"][k_ - 3], g.ref(2)), g.un("star", g.any())])), st_() if k_ < 5 else g.choice([st_(), g.lit([F.B])])]
        add(g)
    cfg2 = F.RandCfg(depth=4, maxrules=3, preds=True, throw=True)
    nostate = []
    for i in range(15 if tier == "quick" else 60):
        g = F.random_group(rng, len(groups) + 1, cfg2)
        groups.append(g)
        nostate.append(g)
    # (c) every Unicode class name the front-end accepts
    ucl = unicode_class_names()
    g = Gram(len(groups) + 1)
    roots = []
    for u in ucl:
        txt = "[\\p{%s}]" % u
        roots.append(g.mk(k="cls", want=list(txt.encode())))
    for u in "LMNCPZS":
        roots.append(g.mk(k="cls", want=list(("[\\p%s]" % u).encode())))
    g.rules = [g.choice([g.ref(i + 2) for i in range(len(roots))])] + roots
    add(g)
    nostate.append(g)
    # (d) classes with several members of every kind in every order: the scanner of the class text keeps state between members
    members = ["a", "b-d", "\\n", "\\t", "\\\\", "\\]", "\\x41", "\\u00e9", "\\U0001F600", "\\101", "\\pL", "\\pN", "_", "-"]
    g = Gram(len(groups) + 1)
    roots = []
    for i in range(60 if tier == "quick" else 400):
        ms = [rng.choice(members) if rng.random() < 0.5 else "\\p{%s}" % rng.choice(ucl) for _ in range(rng.randint(2, 4))]
        if "-" in ms:           # a plain dash is written last
            ms = [m for m in ms if m != "-"] + ["-"]
        txt = "[" + rng.choice(["", "", "^"]) + "".join(ms) + "]" + rng.choice(["", "", "i"])
        roots.append(g.mk(k="cls", want=list(txt.encode())))
    g.rules = [g.choice([g.ref(i + 2) for i in range(len(roots))])] + roots
    add(g)
    nostate.append(g)
    # (e) display names of every quoting with what Go's own string syntax treats specially: a back quote (inside double and single
    # quotes), escapes, a percent sign, a NUL byte, a byte order mark, a non-ASCII letter, braces; the emitted rules table must hold
    # the name whatever it contains
    nasty = ['"a`b"', "'`'", '`raw \\n "q"`', '"tab\\tq\\"x"', '"100%d %s %%"', '"nul\x00byte"', '"bom\ufeffx"', '"\u00e9t\u00e9 {{.}}"', "'\\''", '"\\u00e9\\x41\\101"',
             '"``"', '"a\\\\`b"']
    g = Gram(len(groups) + 1)
    roots = []
    for i in range(len(nasty)):
        alts = [g.action(g.lit([F.A]))]
        if i + 1 < len(nasty):
            alts = [g.seq([g.lit([120]), g.ref(i + 2)])] + alts
        roots.append(g.choice(alts))
    g.rules = roots
    add(g)
    g.disp = list(nasty)
    nostate.append(g)
    c04_groups.predstate = predstate          # a pack of its own: no state block outside a predicate in the whole grammar
    return groups, nostate, len(ucl)


BOOT_INIT = """
var bootVal, bootErr = Parse("boot", []byte("aaa"), Entrypoint("Boot_R"))

func init() {
	if bootErr != nil || bootVal == nil {
		panic(fmt.Sprint("a Parse call made while the package-level variables are initialised failed: ", bootErr))
	}
	if v, err := Parse("boot", []byte("aa"), Entrypoint("Boot_R")); err != nil || v == nil {
		panic(fmt.Sprint("a Parse call made from an init function failed: ", err))
	}
}
"""
BOOT_RULE = "\nBoot_R <- 'a'+ !.\n"


def check_C04(tier, seed, replay=None):
    """every accepted grammar yields Go code that compiles, vets and initialises; one method per block with its scope's labels"""
    import itertools, re, subprocess, shutil, findings
    from peg import Gram, dump_groups, pack_text
    run = Run("C04", tier, seed)
    rng = random.Random(seed)
    groups, nostate, nucl = c04_groups(seed, tier)
    lrg = F.lr_groups(seed, 3, gi0=len(groups) + 1)
    allg = groups + lrg
    # known-finding witnesses (single-group packs)
    wit = {}
    g = Gram(len(allg) + 1)          # F13: A idx 11 vs A1 idx 1
    g.idents = ["WA", "WA1"]
    g.rules = [g.seq([g.lit([F.A + i]) for i in range(9)] + [g.action(g.lit([F.B]))]), g.action(g.lit([F.A]))]
    g.disp = ["", ""]
    g.compute_args()
    allg.append(g)
    wit[g.gi] = "F13"
    g = Gram(len(allg) + 1)          # F14: inlining a rule that contains a label
    g.rules = [g.action(g.seq([g.ref(2), g.ref(2)])), g.action(g.label(g.lit([F.A]), "a"))]
    g.disp = ["", ""]
    g.compute_args()
    allg.append(g)
    wit[g.gi] = "F14"
    base = ["-optimize-parser", "-optimize-grammar", "-optimize-basic-latin", "-support-left-recursion", "-nolint", "-cache", "-receiver-name=x"]
    combos = [list(c) for r in range(len(base) + 1) for c in itertools.combinations(base, r)]
    if tier == "quick":
        must = [[], base, ["-optimize-grammar"], ["-receiver-name=x"], ["-optimize-parser", "-optimize-grammar"], ["-support-left-recursion"]]
        rest = [c for c in combos if c not in must]
        rng.shuffle(rest)
        combos = must + rest[:10]
    pigeon = P.build_pigeon()
    jobs = []       # (name, groups, flags)
    for ci, fl in enumerate(combos):
        jobs.append(("main", groups, fl))
        jobs.append(("nostate", nostate, fl))
        jobs.append(("predstate", c04_groups.predstate[:3], fl))       # the state blocks sit under the predicates themselves
        jobs.append(("predstate1", c04_groups.predstate[3:], fl))       # ... in helper rules used under predicates only
        if "-support-left-recursion" in fl:
            jobs.append(("lr", lrg, fl))
    for gi, fid in wit.items():
        jobs.append(("wit" + fid, [allg[gi - 1]], ["-optimize-grammar"] if fid == "F14" else []))

    import threading
    render_lock = threading.Lock()

    def do(job, single=False):
        name, gs, fl = job
        recv = "x" if "-receiver-name=x" in fl else "c"
        with render_lock:            # the receiver name is a field of the (shared) groups while they are rendered
            for g in gs:
                g.recv = recv
            # the package uses its own parser while it is being initialised: a package-level variable and an init function
            # of the grammar's initializer call Parse (initialisation order: variables first, then init functions in file order)
            txt = pack_text(gs, extra_init=BOOT_INIT) + BOOT_RULE
            for g in gs:
                g.recv = "c"
        fl2 = list(fl)
        if "-optimize-grammar" in fl:
            # every group's entry rule, and every second other rule, stays usable as an entrypoint (several rules survive
            # the optimizer and share what it inlined into them)
            keep = ["Boot_R"] + [g.sname() for g in gs] + [g.rname(k) for g in gs for k in range(2, len(g.rules) + 1) if (g.gi + k) % 2 == 0]
            fl2 += ["-alternate-entrypoints", ",".join(keep)]
        v = P.Variant(id(job) % 100000 + rng.randint(0, 10**6), name, gs, fl2, peg_text=txt)
        res = dict(job=job, v=v, stage="ok", err="")
        if not v.generate(pigeon):
            res.update(stage="generate", err=v.gen_err)
            return res
        fm = P.sh(["gofmt", "-l", "g.go"], cwd=v.dir, check=False)
        if fm.stdout.strip() or fm.returncode != 0:
            res.update(stage="gofmt", err=(fm.stdout + fm.stderr).decode()[-500:])
            return res
        if not v.build():
            res.update(stage="build", err=v.build_err)
            return res
        vt = P.sh(["go", "vet", "."], cwd=v.dir, check=False, timeout=900)
        if vt.returncode != 0:
            res.update(stage="vet", err=(vt.stderr + vt.stdout).decode(errors="replace")[-1500:])
            return res
        # package initialisation only (every rangeTable(class) call, the package's own use of Parse while it initialises):
        # the runner is started with an empty plan
        rq0 = os.path.join(v.dir, "req_init.json")
        with open(rq0, "w") as f_:
            json.dump(dict(groups=[], inputs=[], options=[], plan=[], variant=v.vi), f_)
        pi = subprocess.run([v.bin, rq0, os.path.join(v.dir, "obs_init.ndjson")], stdout=subprocess.DEVNULL, stderr=subprocess.PIPE, env=P.ENV, timeout=120)
        if pi.returncode != 0:
            res.update(stage="init", err=pi.stderr.decode(errors="replace")[-800:])
            return res
        src = open(os.path.join(v.dir, "g.go")).read()
        res["methods"] = re.findall(r"^func \(%s \*current\) (on\w+)\(([^)]*)\)" % recv, src, re.M)
        return res
    results = P.parallel(do, jobs, workers=16)
    failures = []
    for r in results:
        if r["stage"] != "ok":
            name, gs, fl = r["job"]
            if len(gs) > 1:         # bisect: which groups fail alone
                sub = P.parallel(lambda g: do((name, [g], fl)), gs, workers=16)
                bad = [s for s in sub if s["stage"] != "ok"]
                failures += bad if bad else [r]
            else:
                failures.append(r)
    confirmed = set()
    nviol = 0
    active = {f["id"] for f in findings.active("C04")}
    for r in failures:
        name, gs, fl = r["job"]
        g = gs[0]
        fid = None
        if len(gs) == 1:
            names_ = [g.rname(i + 1) for i in range(len(g.rules))] + [g.sname()]
            f13shape = any(a != b and b.startswith(a) and b[len(a):].isdigit() for a in names_ for b in names_)
            if r["stage"] == "build" and ("already declared" in r["err"] or "redeclared" in r["err"]) and g.idents and f13shape:
                fid = "F13"      # only in the finding's shape: one rule name is another one followed by digits (Builder.tla: names-clash)
            if r["stage"] == "build" and "-optimize-grammar" in fl and ("duplicate argument" in r["err"] or "redeclared" in r["err"]) and \
                    any(n["k"] == "label" for n in g.nodes):
                fid = "F14"
        if fid and fid in active:
            confirmed.add(fid)
            continue
        nviol += 1
        if nviol <= 25:
            rd = os.path.join(P.VERIF, "replays", "C04")
            os.makedirs(rd, exist_ok=True)
            import hashlib
            rp = os.path.join(rd, "%s_%s.json" % (r["stage"], hashlib.sha1((g.text() + " ".join(fl)).encode()).hexdigest()[:10]))
            json.dump(dict(property="C04", stage=r["stage"], flags=fl, grammar="\n".join(x.text() for x in gs[:3]), error=r["err"]), open(rp, "w"), indent=1)
            run.violation(rp, "stage=%s flags=%s" % (r["stage"], " ".join(fl)))
    # method sets vs Builder.tla (not for -optimize-grammar: the AST is rewritten before the builder runs)
    lines = []
    gp = os.path.join(P.workdir(), "groups.ndjson")
    dump_groups(allg, gp)
    for r in results:
        name, gs, fl = r["job"]
        if r["stage"] != "ok" or "-optimize-grammar" in fl:
            continue
        by = {}
        for (mn, params) in r["methods"]:
            ps = [p.strip() for p in params.replace(" any", "").split(",") if p.strip()]
            by.setdefault(mn, ps)
        for g in gs:
            ms = [[mn, ps] for mn, ps in by.items() if any(mn.startswith("on" + idn) and mn[len("on" + idn):] and all(ch.isdigit() or ch == "_" for ch in mn[len("on" + idn):])
                                                         for idn in [g.rname(i + 1) for i in range(len(g.rules))])]
            lines.append(json.dumps(dict(gi=g.gi, vi=combos.index(fl) + 1 if fl in combos else 0, methods=ms)) + "\n")
    for gi, fid in wit.items():
        if fid == "F13":
            lines.append(json.dumps(dict(gi=gi, vi=0, methods=[])) + "\n")
    tcase = dict(inputs=[[]], options=[opt()])
    div, tot = P.validate_t1(gp, tcase, [], shards=8, module="Builder", obsname="methods.ndjson", lines=lines, min_chunk=100)
    for d in div:
        if d["gi"] in wit and d["df"] == "names-clash":
            confirmed.add("F13model")
            continue
        nviol += 1
        rd = os.path.join(P.VERIF, "replays", "C04")
        os.makedirs(rd, exist_ok=True)
        rp = os.path.join(rd, "%s_g%d.json" % (d["df"], d["gi"]))
        json.dump(dict(property="C04", divergence=d, grammar=allg[d["gi"] - 1].text()), open(rp, "w"), indent=1)
        run.violation(rp, "df=%s gi=%d" % (d["df"], d["gi"]))
    for fid in sorted(active):
        if fid in confirmed:
            run.known.append("%s: %s" % (fid, findings.what(fid)))
        else:
            run.notes.append("known finding %s: witness no longer fails" % fid)
    # library use: several grammars built one after the other in ONE process with the same option values -- grammars with and
    # without left recursion, with and without state blocks, in both orders.  What is compiled and vetted above is what a fresh
    # process emits; a build that follows other builds must emit the same bytes (else it is a file nothing here has compiled).
    import subprocess as _sp
    from peg import pack_text as _pt
    pvh = P.build_pigeon("verif")
    lrg = F.lr_groups(seed + 77, 6, gi0=1, pure=False) + F.lr_groups(seed + 78, 4, gi0=7, pure=True)
    plain = F.random_groups(seed + 79, 10, F.RandCfg(depth=3, maxrules=2, preds=True, state=True), gi0=11) + F.random_groups(seed + 80, 6, F.RandCfg(depth=3, maxrules=2, preds=True), gi0=21)
    seqs = []
    for a_, b_ in zip(plain, lrg + lrg):
        seqs += [a_, b_]
    seqs = seqs + list(reversed(seqs))
    hreqs = []
    for i_, g_ in enumerate(seqs):
        hreqs.append(json.dumps(dict(id=i_ + 1, text=list(_pt([g_]).encode()), times=1, lr=True, optimize=False, entry=[g_.sname()], optparser=(i_ // 2) % 2 == 1, latin=(i_ // 4) % 2 == 1)))
    def _hook(lines):
        q = _sp.run([pvh], input=("\n".join(lines) + "\n").encode(), stdout=_sp.PIPE, stderr=_sp.PIPE, env=dict(P.ENV, PIGEON_VERIF="rebuild"), timeout=900)
        if q.returncode != 0:
            raise P.Inconclusive("hook failed: " + q.stderr.decode(errors="replace")[-500:])
        return [json.loads(l_).get("digests", []) for l_ in q.stdout.decode().splitlines()]
    together = _hook(hreqs)
    singly = P.parallel(lambda r_: _hook([r_])[0], hreqs, workers=16)
    for i_, (t_, s_) in enumerate(zip(together, singly)):
        if t_ != s_:
            nviol += 1
            rd_ = os.path.join(P.VERIF, "replays", "C04")
            os.makedirs(rd_, exist_ok=True)
            rp_ = os.path.join(rd_, "inprocess_build_%d.json" % (i_ + 1))
            json.dump(dict(property="C04", verdict="the file emitted by a build that follows other builds in the same process is not the file a fresh process emits (the one that was compiled and vetted)",
                           grammar=_pt([seqs[i_]]), request=dict(json.loads(hreqs[i_]), text="(see grammar)"), built_before=[_pt([x_])[:200] for x_ in seqs[max(0, i_ - 2):i_]],
                           digest_in_sequence=t_, digest_alone=s_), open(rp_, "w"), indent=1)
            run.violation(rp_, "in-process build %d of a sequence differs from the same build in a fresh process" % (i_ + 1))
    cov = dict(evaluations=len(jobs), distinct_nontrivial=len(allg),
               rule="grammars with adversarial rule names (one name = another + digits), labels in every scoping construct (random, with predicates/state/throw), ALL %d Unicode class names of unicode_classes.go plus the 7 single-letter classes, left-recursive towers; x flag combinations out of the 2^7 of {-optimize-parser,-optimize-grammar,-optimize-basic-latin,-support-left-recursion,-nolint,-cache,-receiver-name=x} x {with, without state blocks}; per combination: pigeon exit 0, gofmt -l clean, go build, go vet, package initialisation; the method set (name, parameter list) extracted from the generated file is validated by TLC against Builder.tla; a failing pack is bisected into single-group packages" % nucl,
               samples=[dict(flags=j[2], pack=j[0]) for j in jobs[:4]],
               flag_combinations=len(combos), packages_built=len(jobs), unicode_classes=nucl + 7, method_sets_validated=tot["n"],
               states=tot["states"], transitions=tot["transitions"], failures_bisected=len(failures), violating=nviol)
    return run.finish("exploration", cov, ["the Go toolchain's verdict is the observation; Builder.tla predicts names and parameters only for the unoptimised AST"])


# ------------------------------------------------------------------------------------------
C13_ALPHA = [ord(c) for c in "Aa1_ <-=/{}()[]\"'`.*+?&!#%:;,\\^\n"] + [0xE2, 0x86, 0x90, 0xFF, 0x80]


def classify_stderr(err):
    e = err.lower()
    if "goroutine " in err or "panic:" in err or "runtime error" in err or "[recovered" in err:
        return "panic"
    if err.strip() == "":
        return "none"
    if err.startswith("parse error"):
        return "parse"
    if err.startswith("build error"):
        return "build"
    if err.startswith("argument error"):
        return "arg"
    if err.startswith("format error") or "format error:" in err:
        return "format"
    if "flag provided but not defined" in err or "invalid value" in err or "flag needs an argument" in err or "invalid boolean" in err:
        return "flag"
    if err.startswith("expected one argument"):
        return "narg"
    if "no such file" in e or "is a directory" in e or "permission denied" in e:
        return "open"
    if err.startswith("write error"):
        return "write"
    if err.startswith("close file error"):
        return "close"
    return "other:" + err[:40]


def check_C13(tier, seed, replay=None):
    """the tool is total: no crash or hang on any grammar text and flag set"""
    import subprocess, tempfile, hashlib, itertools, re
    from peg import pack_text, Gram
    run = Run("C13", tier, seed)
    rng = random.Random(seed)
    pigeon = P.build_pigeon()
    d = tempfile.mkdtemp(prefix="c13-", dir=P.workdir())
    texts = []          # (kind, bytes)
    maxlen = 2 if tier == "quick" else 3
    for L in range(maxlen + 1):
        if L == 3:
            allp = list(itertools.product(C13_ALPHA, repeat=3))
            rng.shuffle(allp)
            for t in allp[:12000]:
                texts.append(("bytes", bytes(t)))
        else:
            for t in itertools.product(C13_ALPHA, repeat=L):
                texts.append(("bytes", bytes(t)))
    # valid grammars (every expression kind), and mutations of them
    valid = []
    cfgs = [F.RandCfg(depth=3, maxrules=3, preds=True, state=True, throw=True, leaves=F.LEAVES_FULL + F.LEAVES_UTF8),
            F.RandCfg(depth=4, maxrules=3, preds=True, throw=True)]
    for i in range(60 if tier == "quick" else 400):
        g = F.random_group(rng, i + 1, cfgs[i % 2])
        valid.append(pack_text([g]).encode())
    for i in range(10 if tier == "quick" else 60):
        valid.append(pack_text([F.lr_group(rng, 1000 + i)]).encode())
    lrtexts = []
    for i in range(80 if tier == "quick" else 600):        # dense left-call graphs: several cycles, with and without a common rule
        nr = rng.randint(2, 4)
        g = Gram(2000 + i)
        roots = []
        for ri in range(nr):
            alts = [g.seq([g.ref(rng.randint(1, nr)), g.lit([F.A + rng.randint(0, 2)])]) for _ in range(rng.randint(1, 3))] + [g.lit([F.B + ri])]
            roots.append(g.choice(alts))
        g.rules = roots
        g.disp = [""] * nr
        g.compute_args()
        lrtexts.append(pack_text([g]).encode())
    # the repository's own grammars
    for root, _, files in os.walk(P.REPO):
        for fn in files:
            if fn.endswith(".peg"):
                valid.append(open(os.path.join(root, fn), "rb").read())
    for v in valid:
        texts.append(("valid", v))
    # terminal sweeps: every printable ASCII character and the runes with unusual case orbits as the only member of a class
    # (plain, i, ^, ^i, as a range), as a literal (plain, i), and every Unicode class name; one grammar per spelling,
    # through every generation path (the table builders and the emitters enumerate members and case orbits)
    from peg import cls_char, go_quote_rune
    sweep_runes = list(range(33, 127)) + [0x212A, 0x17F, 0xDF, 0x130, 0x131, 0x3A3, 0x3C2, 0x1C5, 0x1E9E, 0xB5, 0x2163, 0xFFFD]
    head0 = "{\npackage main\n}\n"

    def sweep(fmt):
        rules = ["T%d <- %s\n" % (i, fmt(r)) for i, r in enumerate(sweep_runes)]
        return (head0 + "S <- " + " / ".join("T%d" % i for i in range(len(rules))) + "\n" + "".join(rules)).encode()
    for sfx in ("", "i"):
        texts.append(("sweep", sweep(lambda r: "[%s]%s" % (cls_char(r), sfx))))
        texts.append(("sweep", sweep(lambda r: "[^%s]%s" % (cls_char(r), sfx))))
        texts.append(("sweep", sweep(lambda r: "[%s-%s]%s" % (cls_char(r), cls_char(r + 1), sfx))))
        texts.append(("sweep", sweep(lambda r: "\"%s\"%s" % (go_quote_rune(r), sfx))))
        uc = unicode_class_names()
        texts.append(("sweep", (head0 + "S <- " + " / ".join("U%d" % i for i in range(len(uc))) + "\n" +
                                "".join("U%d <- [%s]%s\n" % (i, ("\\p" + u) if len(u) == 1 else ("\\p{" + u + "}"), sfx) for i, u in enumerate(uc))).encode()))
    nm = 1500 if tier == "quick" else 20000
    snippets = [b"{", b"}", b"<-", b"//{", b"%{", b"\"", b"'", b"[", b"]", b"(", b")", b"\\", b"/*", b"*/", b"//", b"\n", b";", b"i", b"\xff",
                b"\\p{", b"\\p{L]", b"\\x", b"\\u12", b"#{", b"&{", b"!{", b":", b"=", b"\xe2\x86\x90", b"^", b"-", b"*", b"?", b"+"]
    for _ in range(nm):
        v = bytearray(rng.choice(valid))
        if len(v) == 0:
            continue
        for _ in range(rng.choice([1, 1, 1, 2, 3])):
            op = rng.choice(["del", "ins", "rep", "cut", "dup"])
            pos = rng.randrange(len(v)) if len(v) else 0
            if op == "del" and len(v) > 1:
                del v[pos:pos + rng.randint(1, 3)]
            elif op == "ins":
                v[pos:pos] = rng.choice(snippets)
            elif op == "rep" and len(v) > 0:
                v[pos:pos + 1] = rng.choice(snippets)
            elif op == "cut":
                v = v[:pos]
            elif op == "dup":
                v[pos:pos] = v[pos:pos + rng.randint(1, 30)]
        texts.append(("mutated", bytes(v)))
    # parsable but semantically odd grammars
    head = b"{\npackage main\n}\n"
    odd = [b"A <- Undefined 'x'\n", b"A <- 'a'\nA <- 'b'\n", b"A <- a:'x' a:'y' { return a, nil }\n", b"A <- %{nolabel}\n", b"A <- 'a' //{l} 'b'\n",
           b"A <- B\nB <- A\n", b"A <- A 'x' / 'y'\n", b"A <- ('a'?)* \n", b"A <- c:'x' { return c, nil }\n", b"A <- x:'a' { return x }\n",
           b"A <- 'a' { this is not go }\n", b"A <- &{ return 1 } 'a'\n", b"A <- [\\p{Nope}]\n", b"A <- [z-a]\n", b"A <- \"\\xZZ\"\n", b"A <- B //{l} C\nB <- %{l}\nC <- %{l}\n",
           b"A <- func\n", b"func <- 'a'\n", b"A <- type:'a' { return type, nil }\n", b"", b"\n\n", b"A <- 'a'", b"A = 'a' ; B \xe2\x86\x90 'b' ; C \xe2\x9f\xb5 A B",
           b"A <- [\\p{Latin]]\n", b"A <- [a\\p{Greek]x]\n", b"A <- [\\p{]]\n", b"A <- [\\p{Latin]\n", b"A <- [\\p{Latin]]i 'x'\nB <- [\\pL\\p{Nd]-]\n",
           b"A \"disp\\\"lay\" <- 'a'\n", b"A <- 'a'i \"B\"i `c`i [d]i .\n", b"A <- ( ( ( 'a' ) ) )\n", b"A <- 'a' / \n", b"A <- / 'a'\n", b"A <- ()\n"]
    # size and depth: nesting of every bracketing construct, long sequences and choices, many rules (a front-end that
    # re-parses a sub-expression on backtracking takes time exponential in the depth)
    def nest(open_, close_, n, core=b"'a'"):
        return b"A <- " + open_ * n + core + close_ * n + b"\n"
    odd += [nest(b"(", b")", 40), nest(b"( ", b" )", 25), nest(b"(", b")*", 30), nest(b"&(", b")", 30), nest(b"!(", b")?", 30), nest(b"l:(", b")", 30),
            nest(b"('b' / ", b")", 30), nest(b"('b' ", b" 'c')", 30), nest(b"(", b" //{e} 'r')", 30), nest(b"(", b" { return 1, nil })", 30),
            b"A <- 'a' { " + b"{" * 300 + b"}" * 300 + b" return nil, nil }\n", b"A <- " + b" / ".join(b"'a%d'" % i for i in range(1500)) + b"\n",
            b"A <- " + b" ".join(b"'a'" for i in range(3000)) + b"\n", b"".join(b"R%d <- R%d 'x' / 'y'\n" % (i, i + 1) for i in range(120)) + b"R120 <- 'z'\n",      # (the optimizer is cubic in such a chain: 400 rules take a minute)
            b"A <- [" + b"a-z" * 500 + b"]\n", b"A <- \"" + b"\\u00e9" * 2000 + b"\"\n"]
    # code blocks whose text is empty, blank or a comment only, for every kind of block and the initializer (the builder trims
    # and re-indents the text of a block)
    for body in (b"", b" ", b"\n", b"\n\n", b"\r\n\n", b"\n\n\n", b"\t", b" \n \n", b"\r\n\r\n", b" // c\n", b"/**/", b"\n\n\treturn nil, nil\n\n", b"\n}{\n"):
        odd += [b"A <- 'a' {" + body + b"}\n", b"A <- &{" + body + b"} 'a'\n", b"A <- !{" + body + b"} 'a'\n", b"A <- #{" + body + b"} 'a'\n",
                b"A <- 'a' {" + body + b"} / 'b' {" + body + b"}\nB <- #{" + body + b"}\n"]
        texts.append(("odd", b"{" + body + b"}\nA <- 'a'\n"))
    for o in odd:
        texts.append(("odd", head + o))
        texts.append(("odd", o))
    # rules whose references form a DAG (every rule refers two or three times to the next): an analysis that visits a rule
    # again from every reference to it takes time exponential in the length of the chain (repaired defect F28)
    def dag(n, body, last=b"'x'"):
        return head + b"".join(b"A%d <- " % i + body.replace(b"@", b"A%d" % (i + 1)) + b"\n" for i in range(n)) + b"A%d <- " % n + last + b"\n"
    texts += [("dag", dag(60, b"@ / @")), ("dag", dag(200, b"@ / @")), ("dag", dag(60, b"@ @? / &@ 'y' / @")), ("dag", dag(80, b"l:@ { return l, nil } / @")),
              ("dag", dag(40, b"@ / @", b"N A0 'x' / 'y'") + b"N <- 'n'?\n"), ("dag", dag(50, b"(@ //{e} @) / @", b"'x' %{e} / 'z'"))]
    # dense left-call graphs: n rules that each begin with a reference to every one of them (choosing a leader must not
    # enumerate the cycles of the component: repaired defect F37)
    def dense_lr(n):
        return head + b"".join(b"R%d <- " % i + b" / ".join(b'R%d "x"' % j for j in range(n)) + b' / "y"\n' for i in range(n))
    texts += [("dag", dense_lr(12)), ("dag", dense_lr(25)), ("dag", dense_lr(40))]
    # known finding F32: -optimize-grammar inlines every rule without references wherever it is used, so on such a chain the
    # optimised grammar doubles with every rule: out of memory (a Go crash trace) instead of a parser or a diagnostic
    texts.append(("kf32", dag(34, b"@ / @")))
    # rule names, labels and display names beyond ASCII, with every way of naming rules on the command line (names that exist,
    # that do not, that differ in one letter / accent / case, empty names): diagnostics that quote or compare names
    for names_ in (["R\u00e8gle", "D\u00e9but", "Fin"], ["\u00c9t\u00e9", "\u00e9t\u00e9", "Ete"], ["\u03a9m\u00e9ga", "\u0394", "A\u00e9\u00e9\u00e9\u00e9B"], ["Entr\u00e9", "Sortie\u00e9", "X"]):
        texts.append(("uni", head + ("%s <- l\u00e9:%s '\u00e9' %s* / 'x'\n%s \"nom \u00e9\" <- [\u00e0-\u00ff]+\n%s <- '\u20ac' { return string(c.text), nil }\n" % (
            names_[0], names_[1], names_[2], names_[1], names_[2])).encode()))
    uni_flags = []
    for nm in ["R\u00e8gle", "Regle", "R\u00e8gl", "D\u00e9but,Fin", "D\u00e9bu,Fin", "r\u00e8gle", "\u00e9t\u00e9", "Ete,\u00c9t\u00e9,Et\u00e9", "\u0394,\u03a9", "Entr\u00e9", "Entre", "Sortie", "", ",", "X,,X", "\u00e9", "A\u00e9\u00e9\u00e9B"]:
        for pre in ([], ["-optimize-grammar"], ["-support-left-recursion", "-optimize-parser"]):
            uni_flags.append(pre + ["-alternate-entrypoints", nm])
    for rn in ["p\u00e9", "\u00e9", "c", "p", "", "x y"]:
        uni_flags.append(["-receiver-name", rn])
    # known finding F39: the front-end is a recursive-descent parser without a depth limit: 30 000 nested parentheses (a 60 KB
    # text) exhaust the Go stack (fatal error, a crash trace) instead of a parser or a diagnostic; 10 000 levels still pass
    texts.append(("kf39", head + b"Deep <- " + b"(" * 30000 + b"'a'" + b")" * 30000 + b"\n"))
    texts.append(("dag", head + b"Deep <- " + b"(" * 3000 + b"'a'" + b")" * 3000 + b"\n"))
    for v in lrtexts:
        texts.append(("leftrec", v))
    base_flags = ["-optimize-grammar", "-optimize-parser", "-optimize-basic-latin", "-support-left-recursion", "-nolint", "-cache", "-x", "-debug", "-no-recover"]
    specials = [["-h"], ["-help"], ["-bogus"], ["-alternate-entrypoints", "Nope"], ["-alternate-entrypoints", "A", "-optimize-grammar"],
                ["-receiver-name", "p"], ["-o", os.path.join(d, "nodir", "x.go")], ["-receiver-name"], ["-alternate-entrypoints", ","],
                ["-optimize-grammar", "-alternate-entrypoints", "A,B"]]
    jobs = []
    for i, (kind, t) in enumerate(texts):
        pth = os.path.join(d, "t%d.peg" % i)
        with open(pth, "wb") as f:
            f.write(t)
        nf = 1 if kind in ("bytes", "kf32", "kf39") else (len(uni_flags) if kind == "uni" else (4 if tier == "quick" else 8))
        for j in range(nf):
            if kind == "sweep":
                fl = [["-optimize-basic-latin"], ["-optimize-basic-latin", "-optimize-parser"], ["-optimize-grammar", "-optimize-basic-latin"], [],
                      ["-optimize-grammar", "-optimize-parser"], ["-support-left-recursion", "-optimize-basic-latin", "-nolint"], ["-optimize-parser"], ["-optimize-grammar"]][j]
            elif kind == "leftrec":
                fl = [["-support-left-recursion"], [], ["-support-left-recursion", "-optimize-parser"], ["-support-left-recursion", "-optimize-grammar"]][j % 4]
            elif kind == "dag":
                fl = [[], ["-optimize-parser"], ["-support-left-recursion", "-nolint"], ["-optimize-basic-latin", "-cache"],
                      ["-x"], ["-support-left-recursion", "-optimize-parser"], ["-debug"], ["-no-recover"]][j % 8]
            elif kind == "kf32":
                fl = ["-optimize-grammar"]
            elif kind == "kf39":
                fl = ["-x"]
            elif kind == "uni":
                fl = list(uni_flags[j])
            elif kind == "bytes":
                fl = [] if i % 3 else ["-optimize-grammar"]
            elif j == 0:
                fl = []
            elif j == 1:
                fl = ["-optimize-grammar", "-support-left-recursion"]
            elif rng.random() < 0.12:
                fl = list(rng.choice(specials))
            else:
                fl = [x for x in base_flags if rng.random() < 0.35]
            if kind in ("valid", "sweep") and j == 2 and "-h" not in fl and "-help" not in fl and "-o" not in fl and "-x" not in fl:
                # the output file already exists and is longer than the new parser: after exit 0 it must be a complete parser
                fl = fl + ["-o", os.path.join(d, "out", "pre_%d.go" % len(jobs))]
            extra_arg = [pth]
            if rng.random() < 0.01:
                extra_arg = [pth, pth]
            if rng.random() < 0.01:
                extra_arg = [os.path.join(d, "missing.peg")]
            jobs.append((len(jobs) + 1, kind, pth, fl, extra_arg))
    outdir = os.path.join(d, "out")
    os.makedirs(outdir)

    # a run that allocates without end must die as an out-of-memory crash of its own, not take the machine with it
    # (prlimit(1) of util-linux; a preexec_fn is not safe in a threaded parent)
    memlimit = ["prlimit", "--as=%d" % (2 << 30)] if shutil.which("prlimit") else []

    def one(job):
        k, kind, pth, fl, args = job
        tmo = False
        ofile = fl[fl.index("-o") + 1] if "-o" in fl and fl.index("-o") + 1 < len(fl) else None
        if ofile and os.path.dirname(ofile) == outdir:
            with open(ofile, "wb") as f:
                f.write(b"stale tail of an older, longer parser ) } ]\n" * 20000)
        try:
            p = subprocess.run(memlimit + [pigeon] + fl + args, stdout=subprocess.PIPE, stderr=subprocess.PIPE, env=P.ENV, timeout=20, stdin=subprocess.DEVNULL)
            rc, out, err = p.returncode, p.stdout, p.stderr.decode(errors="replace")
        except subprocess.TimeoutExpired:
            try:        # confirm the hang with a longer limit
                p = subprocess.run(memlimit + [pigeon] + fl + args, stdout=subprocess.PIPE, stderr=subprocess.PIPE, env=P.ENV, timeout=120, stdin=subprocess.DEVNULL)
                rc, out, err = p.returncode, p.stdout, p.stderr.decode(errors="replace")
            except subprocess.TimeoutExpired:
                rc, out, err, tmo = -1, b"", "", True
        if ofile and os.path.dirname(ofile) == outdir and rc != 0 and os.path.exists(ofile):
            os.remove(ofile)         # only the file of a run that claims success is judged (gofmt -e over the directory below)
        dbg = "-debug" in fl         # the front-end's own Debug trace goes to stdout before everything else
        diag = classify_stderr(err)
        gen = out.find(b"// Code generated by pigeon")
        if dbg and gen >= 0:
            out = out[gen:]
        elif dbg and b"usage: " in out and ("-h" in fl or "-help" in fl or len(args) > 1 or rc == 2):
            out = out[out.rfind(b"usage: "):]
        elif dbg and b"var g = &grammar" in out:
            out = out[out.find(b"var g = &grammar"):]
        elif dbg:
            out = b""
        if out.strip() == b"":
            ok = "none"
        elif out.startswith(b"usage: "):
            ok = "usage"
        elif b"func Parse(filename string" in out and b"func (p *parser) parseZeroOrOneExpr" in out and rc == 0:
            if not dbg:
                h = hashlib.sha1(out).hexdigest()
                with open(os.path.join(outdir, h + ".go"), "wb") as f:
                    # the package clause comes from the grammar's initializer; a grammar without one yields a fragment
                    f.write(out if re.search(rb"^package \w+", out, re.M) else b"package fragment\n" + out)
            ok = "gofile"
        elif rc == 6:
            ok = "raw"
        elif rc == 1 and b"usage: " in out:
            ok = "usage"
        else:
            ok = "incomplete"
        return dict(k=k, rc=rc, diag=diag, out=ok, panic=diag == "panic", timeout=tmo, h=("-h" in fl or "-help" in fl), x="-x" in fl,
                    o="-o" in fl, nargs=len(args), norecover="-no-recover" in fl), err[-600:], "out of memory" in err, "stack overflow" in err[:4000]
    res = P.parallel(one, jobs, workers=16)
    # every complete output must be syntactically valid Go
    fm = P.sh(["gofmt", "-l", "-e", outdir], check=False, timeout=900)
    badgo = set()
    for ln in (fm.stderr.decode(errors="replace")).splitlines():
        if ".go:" in ln:
            badgo.add(os.path.basename(ln.split(".go:")[0]) + ".go")
    lines = [json.dumps(r[0]) + "\n" for r in res]
    div, tot = P.validate_t1(None, dict(inputs=[[]], options=[opt()]), [], shards=4, module="Cli", obsname="cliobs.ndjson", lines=lines, min_chunk=2000) \
        if False else c13_validate(lines)
    nviol = 0
    rd = os.path.join(P.VERIF, "replays", "C13")
    drift = [dd for dd in div if dd["df"] == "not-reachable"]
    if drift:
        # the statement fixes neither the exit statuses nor the wording of the diagnostics: an observation that is ALLOWED
        # but not reachable in Cli.tla's phase model is model drift, not a violation
        j0 = jobs[drift[0]["k"] - 1]
        run.notes.append("model drift: %d observations are allowed outcomes but not terminal states of Cli.tla (first: flags=%s status=%s class=%s)" % (
            len(drift), " ".join(j0[3]), res[drift[0]["k"] - 1][0]["rc"], res[drift[0]["k"] - 1][0]["diag"]))
    div = [dd for dd in div if dd["df"] != "not-reachable"]
    # known finding F32: its witness (and nothing else) may end in the out-of-memory crash
    import findings
    kf32 = {j[0] for j in jobs if j[1] == "kf32"}
    hit32 = [dd for dd in div if dd["k"] in kf32 and res[dd["k"] - 1][0]["panic"] and res[dd["k"] - 1][2]]
    if hit32:
        run.known.append("F32: " + findings.what("F32"))
    elif any(f["id"] == "F32" for f in findings.active("C13")):
        run.notes.append("known finding F32: its witness no longer fails on this tree (entry can be retired)")
    div = [dd for dd in div if dd not in hit32]
    # known finding F39: its witness (and nothing else) may end in the stack-overflow crash
    kf39 = {j[0] for j in jobs if j[1] == "kf39"}
    hit39 = [dd for dd in div if dd["k"] in kf39 and res[dd["k"] - 1][0]["panic"] and (res[dd["k"] - 1][3] or res[dd["k"] - 1][2])]
    if hit39:
        run.known.append("F39: " + findings.what("F39"))
    elif any(f["id"] == "F39" for f in findings.active("C13")):
        run.notes.append("known finding F39: its witness no longer fails on this tree (entry can be retired)")
    div = [dd for dd in div if dd not in hit39]
    for dd in div:
        nviol += 1
        if nviol <= 25:
            os.makedirs(rd, exist_ok=True)
            job = jobs[dd["k"] - 1]
            rp = os.path.join(rd, "%s_%d.json" % (dd["df"], dd["k"]))
            json.dump(dict(property="C13", verdict=dd["df"], flags=job[3], args=[os.path.basename(a) for a in job[4]], kind=job[1],
                           text=list(open(job[2], "rb").read()), text_preview=open(job[2], "rb").read()[:300].decode(errors="replace"),
                           observation=res[dd["k"] - 1][0], stderr=res[dd["k"] - 1][1]), open(rp, "w"), indent=1)
            run.violation(rp, "%s flags=%s" % (dd["df"], " ".join(job[3])))
    if badgo:
        os.makedirs(rd, exist_ok=True)
        rp = os.path.join(rd, "invalid_go_output.json")
        json.dump(dict(property="C13", verdict="exit 0 but the output is not valid Go", files=sorted(badgo)[:5], gofmt=fm.stderr.decode(errors="replace")[:1500]), open(rp, "w"), indent=1)
        run.violation(rp, "exit 0 with an output that gofmt -e rejects")
    from collections import Counter
    byrc = Counter(str(r[0]["rc"]) for r in res)
    cov = dict(evaluations=len(jobs), distinct_nontrivial=len(texts), states=tot["states"], transitions=tot["transitions"], traces_validated_against_impl=tot["n"],
               rule="grammar texts: ALL byte strings of length <= %d over a %d-symbol alphabet of syntax-significant bytes (plus the 3 bytes of U+2190 and two ill-formed bytes), valid grammars of every expression kind incl. the repository's own .peg files, 1-3 point mutations of them (delete/insert/replace/truncate/duplicate with syntax snippets), parsable but semantically odd grammars; x flag subsets incl. -x, -h, unknown flags, bad -o, two file arguments, missing file; each run of the real command is one observation validated by TLC against Cli.tla; every exit-0 output is checked with gofmt -e" % (maxlen, len(C13_ALPHA)),
               samples=[dict(flags=j[3], kind=j[1], observation=r[0]) for j, r in list(zip(jobs, res))[:: max(1, len(jobs) // 5)][:5]],
               texts=len(texts), exit_status_histogram=dict(byrc), complete_outputs_checked=len(os.listdir(outdir)), violating=nviol)
    return run.finish("fault_enumeration", cov, ["diagnostic classes are recognised by their documented prefixes on stderr", "a run exceeding 20 s and then 60 s is a hang (typical run 25 ms)"])


def c13_validate(lines):
    chunks = [lines[i::8] for i in range(8)]
    chunks = [c for c in chunks if c]

    def one(c):
        return P.run_tlc("Cli", P.T1_CFG, {"cliobs.ndjson": ("text", "".join(c))}, workers=1, timeout=1800, heap="4g")
    import re
    div, n, st, tr = [], 0, 0, 0
    for r, c in zip(P.parallel(one, chunks, workers=8), chunks):
        done = None
        for ln in r["out"].splitlines():
            m = re.search(r'"(DIVERGE|DONE) (.*)"$', ln)
            if m:
                js = json.loads(m.group(2).replace('\\"', '"'))
                if m.group(1) == "DIVERGE":
                    div.append(js)
                else:
                    done = js
        if done is None or done["n"] != len(c):
            raise P.Inconclusive("Cli.tla did not consume every observation:\n" + r["out"][-2000:])
        n += done["n"]
        st += r.get("distinct", 0)
        tr += r.get("generated", 0)
    return div, dict(n=n, states=st, transitions=tr)


# ------------------------------------------------------------------------------------------
def c09_groups(seed, n, gi0=1):
    """shared leaf rules referenced from several places, nested choices/sequences, adjacent literals/classes with
    all combinations of i and ^, predicates, actions with labels"""
    from peg import Gram
    rng = random.Random(seed)
    out = []
    lits = [((F.A,), False), ((F.B,), False), ((F.A, F.B), False), ((F.UA,), True), ((F.B,), True), ((), False)]
    clss = [((F.A,), (), False, False), ((F.B,), (), False, False), ((F.A,), (), True, False), ((F.B,), (), True, False),
            ((), (F.A, F.B), False, False), ((F.UA,), (), False, True), ((F.A,), (), True, True), ((F.B, 99), (), False, False),
            ((F.A, F.B, 99), (), False, False), ((F.A, F.B, 99, F.UA, 100), (), False, False), ((F.A, F.UA, 99), (), False, True),
            ((95,), (65, 122), False, True), ((94, 95), (65, 122), False, True), ((95, F.A), (F.UA, 90), False, True), ((F.B,), (F.A, 99), False, False),    # members inside / outside the ranges as written vs as folded
            ((), (F.A, 99), True, False), ((100,), (F.A, F.B), True, False), ((), (F.UA, 67), True, True), ((F.B,), (F.A, F.A), True, False),
            ((), (F.A, 99), True, False), ((99,), (F.A, F.B), True, True)]     # inverted classes that exclude a rune through a RANGE (next to a literal of that rune)
    for i in range(n):
        g = Gram(gi0 + i)
        g.labpool, g.labrng = ["k", "v"], rng        # the same label name in the caller and in an inlined rule
        nr = rng.randint(2, 4)

        def term():
            c = rng.random()
            if c < 0.45:
                l = rng.choice(lits)
                return g.lit(l[0], l[1])
            if c < 0.9:
                k = rng.choice(clss)
                return g.cls(k[0], k[1], k[2], k[3])
            return g.any()

        def expr(d, refs):
            if d == 0:
                return term()
            k = rng.choice(["term", "term", "seq", "seq", "choice", "choice", "choice", "ref", "ref", "star", "opt", "not", "and", "action", "lact", "group"])
            if k == "term":
                return term()
            if k in ("seq", "choice"):
                kids = [expr(d - 1, refs) if rng.random() < 0.5 else term() for _ in range(rng.randint(2, 4))]
                return g.seq(kids) if k == "seq" else g.choice(kids)
            if k == "group":      # nested same-kind groups: (a b) c , (a / b) / c
                inner = [term() for _ in range(2)]
                if rng.random() < 0.5:
                    return g.seq([g.seq(inner), term(), g.seq([term(), term()])])
                return g.choice([g.choice(inner), term(), g.choice([term(), term()])])
            if k == "ref":
                if refs and rng.random() < 0.5:       # a leaf rule right next to a mergeable alternative, possibly under * (Head/Tail idiom)
                    c = g.choice([g.ref(rng.choice(refs)), term()] if rng.random() < 0.5 else [term(), g.ref(rng.choice(refs))])
                    return g.un("star", c) if rng.random() < 0.3 else c
                return g.ref(rng.choice(refs)) if refs else term()
            if k == "star":
                return g.un("star", g.seq([g.cls((F.A, F.B), (), False, False), expr(d - 1, refs)]))
            if k in ("opt", "not", "and"):
                return g.un(k, expr(d - 1, refs))
            if k == "action":
                if refs and rng.random() < 0.4:      # an action directly over a rule reference, inside a sequence with labels of its own
                    return g.seq([g.label(term()), g.action(g.ref(rng.choice(refs))), g.pred(False, "true")])
                return g.action(expr(d - 1, refs))
            return g.action(g.seq([g.label(expr(d - 1, refs)), expr(d - 1, refs)]))
        roots = [None] * nr
        for ri in range(nr, 0, -1):
            refs = list(range(ri + 1, nr + 1))
            if ri == nr or rng.random() < 0.5:
                # leaf rule (no references): a candidate for inlining, referenced from several places
                kids = [term() for _ in range(rng.randint(1, 3))]
                body = g.seq(kids) if len(kids) > 1 and rng.random() < 0.6 else (g.choice(kids) if len(kids) > 1 else kids[0])
                r_ = rng.random()
                if r_ < 0.3:
                    body = g.action(body)
                elif r_ < 0.5:       # a leaf rule that binds a label at its top level
                    body = g.action(g.seq([g.label(term()), term()])) if rng.random() < 0.5 else g.seq([g.label(term()), term()])
                roots[ri - 1] = body
            else:
                roots[ri - 1] = expr(3, refs)
        # the first rule references later rules several times
        if nr > 1:
            extra = [g.ref(rng.randint(2, nr)) for _ in range(rng.randint(1, 3))]
            roots[0] = g.choice([g.seq([roots[0]] + extra[:1]), g.seq(extra + [term()])]) if rng.random() < 0.7 else g.seq([roots[0]] + extra)
        g.rules = roots
        g.disp = [""] * nr
        g.compute_args()
        g.maydiverge = g.may_diverge()
        out.append(g)
    return out


def c09_idiom_groups(seed, n, gi0):
    pool = [F.A, F.B, 99, 100, 101, 102, F.UA, 66, 95, 36, 48, 49]
    """leaf rules that are nothing but a class / a literal / a small choice, referenced from several rules and several
    places, each time right next to an alternative the optimizer merges with (the identifier Head/Tail idiom)"""
    from peg import Gram
    rng = random.Random(seed)
    out = []
    pool = [F.A, F.B, 99, 100, 101, 102, F.UA, 66, 95, 36, 48, 49]
    for i in range(n):
        g = Gram(gi0 + i)
        if rng.random() < 0.2:
            # scope idiom: a leaf rule that binds a label at its top level, inlined directly under an action / a label / a
            # predicate / a repetition inside a sequence that binds THE SAME label name and uses it afterwards
            nm = rng.choice(["k", "v"])
            t1, t2, t3 = [g.lit([rng.choice(pool[:4])]) for _ in range(3)]
            leafbody = g.seq([g.label(t2, nm), t3])
            if rng.random() < 0.7:
                leafbody = g.action(leafbody)
            site = g.ref(2)
            w = rng.random()
            if w < 0.4:
                site = g.action(site)
            elif w < 0.55:
                site = g.label(site, "w")
            elif w < 0.7:
                site = g.un("opt", site)
            elif w < 0.8:
                site = g.un("and", site)
            elif w < 0.9:           # ... as the guarded expression of a recovery operator (which opens no label scope at run time)
                site = g.recover(site, g.lit([99]), ["la"])
            elif w < 0.96:          # ... as the recovery expression itself, reached through a throw
                site = g.recover(g.choice([g.lit([100]), g.throw("la")]), site, ["la"])
            items = [g.label(t1, nm), site, g.pred(False, "true")]
            if rng.random() < 0.3:
                items = [g.recover(g.seq(items), g.lit([99]), ["la"])]
            g.rules = [g.action(g.seq(items)) if len(items) > 1 else g.action(items[0]), leafbody]
            g.disp = ["", ""]
            g.compute_args()
            g.maydiverge = False
            out.append(g)
            continue
        if rng.random() < 0.1:
            # spelling idiom: single characters that the optimizer merges into a class whose regenerated text reads like a
            # DIFFERENT class of the same grammar: "a" / "-" / "f" reads [a-f] (the range), "^" / "a" reads [^a] (the inverted class)
            if rng.random() < 0.6:
                lo, hi = sorted(rng.sample([F.A, F.B, 99, 100, 101, 102], 2))
                merged = g.choice([g.lit([lo]), g.lit([45]), g.lit([hi])])
                real = g.cls((), (lo, hi), False, False)
            else:
                x = rng.choice([F.A, F.B, 99])
                merged = g.choice([g.lit([94]), g.lit([x])])
                real = g.cls((x,), (), True, False)
            two = [g.label(merged), g.un(rng.choice(["star", "plus", "opt"]), real)]
            if rng.random() < 0.5:
                two = [g.label(real), g.un(rng.choice(["star", "plus", "opt"]), merged)]
            g.rules = [g.action(g.seq(two))]
            g.disp = [""]
            g.compute_args()
            g.maydiverge = False
            out.append(g)
            continue
        nleaf = rng.randint(1, 2)
        nr = 2 + nleaf + rng.randint(0, 1)
        leaf_ix = list(range(nr - nleaf + 1, nr + 1))

        def leaf():
            c = rng.random()
            chars = rng.sample(pool, rng.choice([1, 2, 3, 3, 4, 5, 6, 7]))
            if c < 0.6:
                return g.cls(tuple(chars), (), rng.random() < 0.15, rng.random() < 0.2)
            if c < 0.8:
                return g.choice([g.lit([x]) for x in chars[:3]]) if len(chars) > 1 else g.lit([chars[0]])
            if rng.random() < 0.3:
                return g.cls((95, rng.choice(pool)), (65, 122), False, True)       # [_xA-z]i: the underscore lies between Z and a
            return g.cls(tuple(chars[:2]), (F.A, 99), False, False)

        def single():
            c = rng.random()
            x = rng.choice(pool)
            if c < 0.6:
                return g.lit([x], rng.random() < 0.15)
            return g.cls((x, rng.choice(pool)), (), False, rng.random() < 0.15)

        def use():
            L = g.ref(rng.choice(leaf_ix))
            alts = [L, single()] if rng.random() < 0.6 else [single(), L]
            if rng.random() < 0.3:
                alts.append(single())
            c = g.choice(alts)
            r = rng.random()
            if r < 0.35:
                c = g.un("star", c)
            elif r < 0.5:
                c = g.un("plus", c)
            elif r < 0.6:
                c = g.label(c)
            return c
        roots = []
        for ri in range(1, nr - nleaf + 1):
            items = [use() for _ in range(rng.randint(1, 3))]
            if ri < nr - nleaf and rng.random() < 0.7:
                items.insert(rng.randint(0, len(items)), g.ref(ri + 1))
            body = g.seq(items) if len(items) > 1 else items[0]
            if rng.random() < 0.6:
                body = g.action(body)
            roots.append(body)
        for _ in range(nleaf):
            roots.append(leaf())
        g.rules = roots
        g.disp = [""] * len(roots)
        g.compute_args()
        g.maydiverge = g.may_diverge()
        out.append(g)
    return out


def check_C09(tier, seed, replay=None):
    """-optimize-grammar preserves the language and what actions see"""
    import findings
    from rt import pairwise
    run = Run("C09", tier, seed)
    n, maxlen = (300, 3) if tier == "quick" else (1000, 3)
    groups = c09_groups(seed, n)
    groups += c09_idiom_groups(seed + 3, n, len(groups) + 1)
    groups += F.random_groups(seed + 5, n // 3, F.RandCfg(depth=3, maxrules=3, preds=True, throw=True), gi0=len(groups) + 1)
    inputs = F.all_inputs([F.A, F.B, F.UA, 99], maxlen)
    rngi = random.Random(seed)
    for _ in range(150 if tier == "quick" else 600):       # the idiom family's alphabet
        inputs.append([rngi.choice([F.A, F.B, 99, 100, 101, 102, F.UA, 66, 95, 36, 48, 49, 45, 94]) for _ in range(rngi.randint(1, 5))])
    nin = len(inputs)
    options = [opt(), opt(maxexpr=3000)]
    # every protected rule is exercised as an entrypoint: "@k" enters rule k directly
    for k in (2, 3, 4):
        options.append(opt(entry="@%d" % k, entryrule=k))
        options.append(opt(entry="@%d" % k, entryrule=k, maxexpr=3000))
    rng = random.Random(seed)
    protected = {}
    for g in groups:
        # a random subset of the other rules is named in -alternate-entrypoints
        protected[g.gi] = [k for k in range(2, min(len(g.rules), 4) + 1) if rng.random() < 0.5]

    def plan_for(g):
        b = 1 if g.maydiverge else 0
        pl = [(ii, b) for ii in range(nin)]
        for k in protected[g.gi]:
            pl += [(ii, 2 + 2 * (k - 2) + b) for ii in range(0, nin, 2)]
        return pl

    def gen_flags(pk):
        names = [g.sname() for g in pk] + [g.rname(k) for g in pk for k in protected[g.gi]]
        if pk[0].gi % 300 == 1:        # (every other pack) the flag may be repeated: every occurrence adds rules
            third = max(1, len(names) // 3)
            return ["-alternate-entrypoints", ",".join(names[:third]), "-alternate-entrypoints", ",".join(names[third:2 * third]) or names[0],
                    "-alternate-entrypoints", ",".join(names[2 * third:]) or names[0]]
        return ["-alternate-entrypoints", ",".join(names)]
    run.bisect_build_failures = True      # an optimised grammar whose generated code does not compile is a violation, not a machinery failure
    # the optimised grammar goes through every other generation path too (the class tables of -optimize-basic-latin are built
    # from the classes the optimizer synthesised)
    fsets = [["-optimize-grammar"], ["-optimize-grammar", "-optimize-parser", "-optimize-basic-latin"], []]
    if tier != "quick":
        fsets += [["-optimize-grammar", "-optimize-basic-latin"], ["-optimize-grammar", "-optimize-parser"]]
    div, tot = run.execute(groups, inputs, options, plan_for, fsets,
                           cmp=dict(norm=True, errs=False), gen_flags_for=gen_flags, pack_size=150)
    # real-vs-real: optimised against unoptimised (acceptance, consumed prefix, normalised value and events)
    byname = {}
    for ix, v in enumerate(run.variants):
        byname.setdefault(v.name.rsplit("f", 1)[0], {})[v.name.rsplit("f", 1)[1]] = ix
    pairs = [(d_["2"], d_["0"]) for d_ in byname.values() if "2" in d_ and "0" in d_]
    d2, npairs = pairwise(run, pairs, fields=("status", "ok", "end", "nval"))
    div += d2
    # classes with Unicode classes next to plain members, literals and other classes (identifier idioms: IdStart <- "_" / Letter ;
    # Letter <- [\pL]): whatever the optimizer inlines, merges or simplifies, the optimised parser decides like the plain one
    # (real against real, as the statement says; runes beyond ASCII among the inputs)
    from peg import Gram
    run_u = Run("C09", tier, seed)
    rngu = random.Random(seed + 41)
    utexts = ["[\\pL]", "[_\\pL]", "[$\\p{Lu}]", "[_\\pL\\pN]", "[\\pN]", "[\\p{Ll}_]", "[^\\pL]", "[^_\\pN]", "[\\p{Lu}]i", "[a\\p{Greek}]", "[0-9\\pL]", "[_]", "[$]", "[_a]", "[\\p{Nd}x]i", "[^\\p{Lu}a]i"]
    ug = []
    for ui in range(120 if tier == "quick" else 600):
        g = Gram(ui + 1)
        nleaf = rngu.randint(2, 4)
        def leaf_(k_):
            c = rngu.random()
            if c < 0.6:
                return g.mk(k="cls", want=list(rngu.choice(utexts).replace("\\\\", "\\").encode()))
            if c < 0.8:
                return g.choice([g.lit([rngu.choice([95, 36, F.A])]), g.ref(2 + (k_ + 1) % nleaf)]) if k_ + 1 < nleaf else g.lit([95])
            return g.choice([g.mk(k="cls", want=list(rngu.choice(utexts).replace("\\\\", "\\").encode())), g.lit([rngu.choice([95, 36, 48])])])
        def item_():
            c = rngu.random()
            if c < 0.55:
                return g.ref(2 + rngu.randrange(nleaf))
            if c < 0.75:
                return g.choice([g.lit([rngu.choice([95, 36, F.A])]), g.ref(2 + rngu.randrange(nleaf))])
            if c < 0.9:
                return g.un(rngu.choice(["star", "opt", "plus"]), g.choice([g.ref(2 + rngu.randrange(nleaf)), g.cls((48,), (48, 57), False, False)]))
            return g.mk(k="cls", want=list(rngu.choice(utexts).replace("\\\\", "\\").encode()))
        leaves_ = []
        for k_ in range(nleaf - 1, -1, -1):          # later leaves first: a leaf refers only to leaves behind it
            leaves_.insert(0, leaf_(k_))
        g.rules = [g.action(g.seq([g.label(item_()) if rngu.random() < 0.5 else item_() for _ in range(rngu.randint(1, 3))] + [g.un("star", g.any())]))] + leaves_
        g.disp = [""] * len(g.rules)
        g.compute_args()
        g.maydiverge = False
        ug.append(g)
    urunes = [95, 36, F.A, 90, 0xE9, 0xC9, 57, 0x3A9, 0x3C9, 32, 0x661, 120]
    uin = [[b for r_ in (a,) for b in chr(r_).encode()] for a in urunes] + [list((chr(a) + chr(b)).encode()) for a in urunes for b in urunes[:8]]
    upig = P.build_pigeon()
    upacks = [ug[i:i + 60] for i in range(0, len(ug), 60)]
    uvars = []
    for pi_, pk in enumerate(upacks):
        names_ = ",".join([x.sname() for x in pk])
        for fl in ([], ["-optimize-grammar", "-alternate-entrypoints", names_], ["-optimize-grammar", "-optimize-parser", "-optimize-basic-latin", "-alternate-entrypoints", names_]):
            uvars.append(P.Variant(len(uvars) + 1, "u%df%d" % (pi_, len(uvars) % 3), pk, fl))

    def uprep(v):
        if not v.generate(upig):
            raise P.Inconclusive("pigeon rejected a pack of Unicode-class grammars: " + v.gen_err[-300:])
        if not v.build():
            raise P.Inconclusive("build failed: " + v.build_err[-300:])
        return v.run(uin, [opt()], [[gx, ii, 0] for gx in range(len(v.groups)) for ii in range(len(uin))])
    run_u.obs = P.parallel(uprep, uvars)
    run_u.variants, run_u.groups, run_u.inputs, run_u.options = uvars, ug, uin, [opt()]
    du, nu = pairwise(run_u, [(i, i + 1) for i in range(0, len(uvars), 3)] + [(i, i + 2) for i in range(0, len(uvars), 3)], fields=("status", "ok", "end", "nval"))
    for d in du:
        run.violation(run_u.replay_path(d), "Unicode-class grammar: optimised and plain parser differ (%s) group %d input %s" % (d["df"], d["gi"], bytes(uin[d["ii"] - 1]).decode(errors="replace")))
    npairs += nu
    run.cov["unicode_class_grammars"] = dict(groups=len(ug), inputs=len(uin), pairs_compared=nu)
    # the optimizer alone: its real output judged by PegRef, and every order of the rewrites of Optimize.tla
    import optdesign
    for (pth, what) in optdesign.check(run, seed, tier):
        run.violation(pth, what)
    return std_finish(run, div, tot, "grammars with leaf rules referenced from several places, nested choices/sequences, adjacent literals and classes in all combinations of i and ^, predicates, actions with labels (+ random throw/recover grammars) x all inputs over {a,b,A,c} x a random subset of rules as -alternate-entrypoints (each protected rule entered directly); the -optimize-grammar parser's traces are validated against PegRef applied to the UNOPTIMISED grammar (acceptance, end offset, action events with text/pos/normalised labels, normalised value) and against the unoptimised parser",
                      level="translation_validation", extra=dict(programs=len(run.variants), disagreements_checked=npairs + tot["n"], pairs_compared=npairs))


# ------------------------------------------------------------------------------------------
def check_C18(tier, seed, replay=None):
    """concurrent parses with one generated parser are isolated (model: Pool.tla; real: -race stress, each call = its solo result)"""
    import re
    from peg import dump_groups
    run = Run("C18", tier, seed)
    # (1) design level: all interleavings of 2 (quick) / 3 (thorough) parsers sharing the pool
    np_ = 2 if tier == "quick" else 3
    cfg = ("SPECIFICATION Spec\nCONSTANTS\n NP = %d\n Prog <- MCProg%d\n Keys <- MCKeys\n MaxMaps = %d\n DoublePut = FALSE\n NoClear = FALSE\n"
           "INVARIANTS ExclusiveOwnership GetIsEmpty Isolation\n%s") % (np_, np_, 8 if np_ == 2 else 11, "PROPERTY Termination\n" if np_ == 2 else "")
    r = P.run_tlc("MCPool", cfg, {}, workers=16, timeout=3000, heap="24g")
    if "No error has been found" not in r["out"]:
        if "is violated" in r["out"]:
            rd = os.path.join(P.VERIF, "replays", "C18")
            os.makedirs(rd, exist_ok=True)
            rp = os.path.join(rd, "pool_model.txt")
            open(rp, "w").write(r["out"][-6000:])
            raise P.Inconclusive("Pool.tla: an invariant of the DESIGN model is violated (see %s); a model counterexample alone is never a verdict" % rp)
        raise P.Inconclusive("Pool.tla did not complete:\n" + r["out"][-1500:])
    # the deviation switches must produce counterexamples (the invariants are not vacuous)
    r2 = P.run_tlc("MCPool", cfg.replace("DoublePut = FALSE", "DoublePut = TRUE").replace("PROPERTY Termination\n", ""), {}, workers=8, timeout=600, heap="8g")
    r3 = P.run_tlc("MCPool", cfg.replace("NoClear = FALSE", "NoClear = TRUE").replace("PROPERTY Termination\n", ""), {}, workers=8, timeout=600, heap="8g")
    vac = [("DoublePut", "is violated" in r2["out"]), ("NoClear", "is violated" in r3["out"])]
    if not all(v for _, v in vac):
        raise P.Inconclusive("Pool.tla: a deviation switch no longer violates the invariants (vacuity): %s" % vac)
    # (2) real code under concurrency, race detector on
    n = 120 if tier == "quick" else 400
    groups = F.random_groups(seed, n, F.RandCfg(depth=4, state=True, cloner=True, gstore=False, preds=True, errs=0.2), 1)
    groups += F.random_groups(seed + 1, n // 2, F.RandCfg(depth=4, preds=True, throw=True), len(groups) + 1)
    # one expression evaluated on behalf of different rules (a recovery expression runs inside whichever rule threw; a rule body
    # runs under every caller): anything keyed by "the current rule" must be per call
    from peg import Gram
    for variant in range(6):
        g = Gram(len(groups) + 1)
        rec = g.choice([g.lit([F.A]), g.lit([F.B]), g.lit([])]) if variant % 2 == 0 else g.un("star", g.choice([g.lit([F.A]), g.action(g.lit([F.B]))]))
        t2 = g.seq([g.lit([F.A]), g.throw("la")])
        t3 = g.seq([g.lit([F.B]), g.throw("la")]) if variant < 4 else g.seq([g.lit([F.B]), g.un("opt", g.ref(2))])
        g.rules = [g.recover(g.choice([g.ref(2), g.ref(3)]), rec, ["la"]), t2, t3]
        g.disp = [""] * 3
        g.compute_args()
        g.maydiverge = g.may_diverge()
        groups.append(g)
    # the state store under throw / recover: a throw that falls through k failing recovery expressions (each changing the store
    # before it fails) to one that matches -- snapshots taken and given back inside the handler loop, while other parses run
    for k_ in range(1, 4):
        for wrap in (None, "opt", "star"):
            for dirty in (False, True):
                g = Gram(len(groups) + 1)
                e = g.seq([g.lit([F.A]), g.state("inc", "x", 1), g.throw("la")])
                for i_ in range(k_):
                    failing = g.seq(([g.state("set", "y", 2 + i_), g.state("app", "cl", 7)] if dirty else []) + [g.lit([F.B]), g.lit([F.B]), g.lit([F.B])])
                    e = g.recover(e, failing, ["la"] if i_ != 1 else ["lb", "la"])
                e = g.recover(e, g.action(g.seq([g.state("inc", "x", 10), g.un("star", g.any())])), ["la"])
                if wrap:
                    e = g.un(wrap, e)
                g.rules = [g.seq([g.state("set", "x", 1), g.state("app", "cl", 2), e, g.action(g.seq([g.pred(False, "eq", key="x", arg=12), g.un("star", g.any())]))])]
                g.disp = [""]
                g.compute_args()
                g.maydiverge = g.may_diverge()
                groups.append(g)
    groups += F.random_groups(seed + 2, n // 3, F.RandCfg(depth=4, maxrules=3, state=True, cloner=True, throw=True, preds=True), len(groups) + 1)
    lrg = F.lr_groups(seed, n // 3, gi0=len(groups) + 1)
    groups += lrg
    # character classes with Unicode classes, ranges and case folding on input beyond Latin-1: whatever the class matcher
    # looks up or remembers lives in the grammar table, which all concurrent parses share (a pack of its own; its solo runs
    # are not judged by PegRef here -- C01 does that -- only compared with the concurrent ones, under the race detector)
    ug = []
    ucls = ["[\\p{L}]", "[\\p{Nd}]", "[\\p{Greek}]", "[\\pL\\pN]", "[^\\p{Lu}]", "[\\p{Ll}]i", "[\u03b1-\u03c9]i", "[\\p{Han}\u20ac]", "[^\\pL\\p{Nd} ]", "[\\p{Devanagari}\\p{Cyrillic}]", "[\u0391-\u03a9\\p{Sc}]", "[\u00e9\u0416]i"]
    for k_ in range(8):
        g = Gram(len(groups) + len(ug) + 1)
        rr = random.Random(seed * 13 + k_)
        alts = []
        for txt in rr.sample(ucls, 4):
            c_ = g.mk(k="cls", want=list(txt.encode()))
            alts.append(g.action(g.un("plus", c_)) if rr.random() < 0.6 else c_)
        g.rules = [g.action(g.un("star", g.choice(alts + [g.any()])))]
        g.disp = [""]
        g.compute_args()
        g.maydiverge = False
        g.tags.add("uclass")
        ug.append(g)
    inputs = F.all_inputs([F.A, F.B], 3) + F.all_inputs([F.NN, F.PLUS, F.STAR_], 3)
    u_first = len(inputs)
    urunes = [0x3B1, 0x3A9, 0x967, 0x4E2D, 0xE9, 0x416, 0x436, 0x20AC, 97, 49, 32, 0x391, 0x3C9, 0x1F600]
    ur = random.Random(seed + 77)
    for _ in range(60):
        inputs.append([b for _r in range(ur.randint(3, 7)) for b in F.utf8(ur.choice(urunes))])
    uin = list(range(u_first, len(inputs)))
    options = [opt(), opt(memo=True), opt(maxexpr=40), opt(allowinv=True, stats=False), opt(memo=True, maxexpr=3000),
               opt(via="reader"), opt(via="reader", maxexpr=3000)]          # the other entry points of the package share whatever ParseReader shares
    # calls with very few options (the per-parse log, optionally Memoize): only possible for the default entry rule
    few = [len(options), len(options) + 1, len(options) + 2]
    options += [opt(entry="-", stats=False), opt(entry="-", stats=False, memo=True), opt(entry="-", stats=False, allowinv=True)]
    nin = u_first
    rng = random.Random(seed)

    def plan_for(g):
        if "uclass" in g.tags:
            return [(ii, oi) for ii in uin for oi in (0, 1, 3)]
        pl = []
        for ii in range(nin):
            for oi in range(len(options) - 3):
                if g.maydiverge and options[oi]["maxexpr"] == 0:
                    continue
                if g.maydiverge and options[oi]["memo"]:
                    continue
                if rng.random() < 0.5:
                    pl.append((ii, oi))
        return pl
    pigeon = P.build_pigeon()
    from rt import pack_groups
    packs = pack_groups(groups, 200) + [ug]
    groups = groups + ug
    variants = []
    for pi, pk in enumerate(packs):
        fl = ["-support-left-recursion"] if "lr" in pk[0].tags else []
        variants.append(P.Variant(len(variants) + 1, "p%d" % pi, pk, fl))
        variants.append(P.Variant(len(variants) + 1, "p%do" % pi, pk, fl + ["-optimize-parser"]))      # the other shape of the generated code
    G = 8 if tier == "quick" else 32
    rounds = 3 if tier == "quick" else 12

    def prep(v):
        if not v.generate(pigeon):
            raise P.Inconclusive("generation failed: " + v.gen_err)
        if not v.build(race=True):
            raise P.Inconclusive("race build failed: " + v.build_err)
        plan = []
        for gx, g in enumerate(v.groups):
            for (ii, oi) in plan_for(g):
                if oi in few:
                    continue
                if v.optimized and (options[oi]["memo"] or options[oi]["debug"]):
                    continue            # options that do not exist in an -optimize-parser parser
                if not v.state_on and options[oi].get("initx", -1) >= 0:
                    continue
                plan.append([gx, ii, oi])
        g0 = v.groups[0]
        if not g0.maydiverge:
            rr = random.Random(seed + v.vi)
            ins0 = sorted({ii for (ii, oi) in plan_for(g0)}) or [0]
            few_v = [oi for oi in few if not (v.optimized and options[oi]["memo"])]
            extra = [[0, rr.choice(ins0), rr.choice(few_v)] for _ in range(600)]
            plan = extra[:300] + plan + extra[300:]
        solo = v.run(inputs, options, plan, timeout_ms=20000)
        solo_err = getattr(v, "last_stderr", "")
        # the same calls one after the other in the opposite order, in a fresh process: what a call returns (its statistics
        # included) does not depend on which calls the process has served before
        rev = v.run(inputs, options, plan[::-1], timeout_ms=20000, obs_name="obs_rev.ndjson")
        conc = v.run(inputs, options, plan, timeout_ms=20000, conc=G, rounds=rounds, obs_name="obs_conc.ndjson")
        v.rev_obs = rev
        return solo, conc, solo_err, getattr(v, "last_stderr", ""), getattr(v, "conc_failure", None), len(plan)
    res = P.parallel(prep, variants, workers=4)
    run.variants, run.groups, run.inputs, run.options = variants, groups, inputs, options
    run.obs = [r_[0] for r_, v_ in zip(res, variants) if "uclass" not in v_.groups[0].tags]
    gp = os.path.join(P.workdir(), "groups.ndjson")
    dump_groups(groups, gp)
    tcase = dict(inputs=inputs, options=options, lower=[[0, 0]], uclass=[[0]], cmp=dict(store=True, errs=True, ctx=False, norm=False), kf=["F21", "F2", "F35"], strict=[0])
    div, tot = P.validate_t1(gp, tcase, run.obs, shards=12)       # the solo runs are what PegRef says
    ncmp, races = 0, 0
    for v, (solo, conc, serr, cerr, fail, npl) in zip(variants, res):
        if "DATA RACE" in cerr or (fail and "DATA RACE" in fail[1]):
            races += 1
            rd = os.path.join(P.VERIF, "replays", "C18")
            os.makedirs(rd, exist_ok=True)
            rp = os.path.join(rd, "race_%s.txt" % v.name)
            open(rp, "w").write((fail[1] if fail else cerr)[-6000:])
            run.violation(rp, "data race reported by the race detector")
            continue
        if fail:
            raise P.Inconclusive("concurrent runner failed (rc=%s): %s" % (fail[0], fail[1][-800:]))
        so = [json.loads(l) for l in open(solo)]
        co = [json.loads(l) for l in open(conc)]
        if len(so) != len(co):
            raise P.Inconclusive("observation counts differ")
        for a, b in zip(so, co):
            ncmp += 1
            a2 = {k: a[k] for k in a if k not in ("k",)}
            b2 = {k: b[k] for k in b if k not in ("k",)}
            if a2 != b2:
                fld = [k for k in a2 if a2[k] != b2.get(k)][0]
                div.append(dict(k=a["k"], vi=v.vi, gi=a["gi"], ii=a["ii"], oi=a["oi"], df="concurrent-" + fld, at=0, haz=[]))
        ro = [json.loads(l) for l in open(v.rev_obs)][::-1]
        if len(ro) != len(so):
            raise P.Inconclusive("observation counts differ (reverse order)")
        for a, b in zip(so, ro):
            ncmp += 1
            a2 = {k: a[k] for k in a if k not in ("k",)}
            b2 = {k: b[k] for k in b if k not in ("k",)}
            if a2 != b2:
                fld = [k for k in a2 if a2[k] != b2.get(k)][0]
                div.append(dict(k=a["k"], vi=v.vi, gi=a["gi"], ii=a["ii"], oi=a["oi"], df="order-" + fld, at=0, haz=[]))
    mstates = r.get("distinct", 0)
    import optproto
    optproto.report(run, tier, seed, with_design=False)     # the option protocol (Options.tla) stepped on real parser objects
    return std_finish(run, div, tot, "design: Pool.tla, %d parsers sharing the state pool, every interleaving of Get / per-key copy / per-key clear / Put / adopt / write (exhaustive, %d distinct states), invariants ExclusiveOwnership, GetIsEmpty, Isolation (+ the deviation switches DoublePut and NoClear each produce a counterexample); real code: stateful (Cloner), throw/recover and left-recursive packs built with -race, %d goroutines x %d rounds calling Parse concurrently with mixed inputs and options (Memoize, MaxExpressions, AllowInvalidUTF8); every concurrent call must return exactly its solo observation (which is validated against PegRef) and the race detector must stay silent" % (np_, mstates, G, rounds),
                      extra=dict(pool_model_states=mstates, pool_model_transitions=r.get("generated", 0), concurrent_calls_compared=ncmp, goroutines=G, rounds=rounds, race_reports=races))


# ------------------------------------------------------------------------------------------
def hook_astdump(reqs, timeout=1800):
    """reqs: list of dict(id, text(list of bytes), mode) -> list of results in order"""
    import subprocess
    pv = P.build_pigeon("verif")
    inp = "\n".join(json.dumps(r) for r in reqs) + "\n"
    p = subprocess.run([pv], input=inp.encode(), stdout=subprocess.PIPE, stderr=subprocess.PIPE, env=dict(P.ENV, PIGEON_VERIF="astdump"), timeout=timeout)
    if p.returncode != 0:
        raise P.Inconclusive("hook failed: " + p.stderr.decode(errors="replace")[-800:])
    out = [json.loads(l) for l in p.stdout.decode().splitlines() if l.strip()]
    if len(out) != len(reqs):
        raise P.Inconclusive("hook answered %d of %d requests" % (len(out), len(reqs)))
    return out


EMPTY_AST = dict(t="None", pos=[0, 0, 0], kids=[], val=[], name="", ic=False, inv=False, chars=[], rngs=[], ucl=[], labs=[])


def asteq(cases, obs, mode, shards=12):
    """TLC (AstEq.tla) over (cases, obs) pairs"""
    import re
    n = len(cases)
    shards = max(1, min(shards, n // 50 or 1))
    size = (n + shards - 1) // shards
    jobs = []
    for s in range(shards):
        c, o = cases[s * size:(s + 1) * size], obs[s * size:(s + 1) * size]
        if c:
            jobs.append((c, o))

    def one(job):
        c, o = job
        return P.run_tlc("AstEq", P.T1_CFG, {"astcases.ndjson": ("text", "".join(json.dumps(x) + "\n" for x in c)),
                                              "astobs.ndjson": ("text", "".join(json.dumps(x) + "\n" for x in o)),
                                              "astmode.json": ("text", json.dumps(dict(mode=mode)))}, workers=1, timeout=3000, heap="6g")
    div, tot, st, tr = [], 0, 0, 0
    for r, (c, o) in zip(P.parallel(one, jobs, workers=len(jobs)), jobs):
        done = None
        for ln in r["out"].splitlines():
            m = re.search(r'"(DIVERGE|DONE) (.*)"$', ln)
            if m:
                js = json.loads(m.group(2).replace('\\"', '"'))
                if m.group(1) == "DIVERGE":
                    div.append(js)
                else:
                    done = js
        if done is None or done["n"] != len(c):
            raise P.Inconclusive("AstEq.tla did not consume every case:\n" + r["out"][-2500:])
        tot += done["n"]
        st += r.get("distinct", 0)
        tr += r.get("generated", 0)
    return div, dict(n=tot, states=st, transitions=tr)


def check_C03(tier, seed, replay=None):
    """the grammar front-end accepts the documented syntax and builds the denoted AST"""
    import pegtext as T, subprocess, tempfile
    run = Run("C03", tier, seed)
    rng = random.Random(seed)
    n = 600 if tier == "quick" else 12000
    cases = []
    # systematic part: every expression kind at the root and as the operand of every operator, several spellings each
    kinds = ["Lit", "Class", "Any", "Ref", "Seq", "Choice", "Action", "Label", "And", "Not", "Opt", "Star", "Plus", "State", "AndCode", "NotCode", "Throw", "Recover"]
    def mk(kind, inner):
        names = ["A"]
        if kind in ("Seq", "Choice"):
            return dict(k=kind, es=[inner(), inner()])
        if kind in ("Action", "And", "Not", "Opt", "Star", "Plus"):
            return dict(k=kind, e=inner())
        if kind == "Label":
            return dict(k="Label", name="lab", e=inner())
        if kind == "Recover":
            return dict(k="Recover", e=inner(), rec=inner(), labels=["err"])
        return T.rand_expr(rng, 0, names) if kind in ("Lit", "Class", "Any", "Ref") else (dict(k=kind) if kind != "Throw" else dict(k="Throw", label="err"))
    absgr = []
    for outer in kinds:
        for inner_kind in kinds:
            e = mk(outer, lambda: mk(inner_kind, lambda: T.rand_expr(rng, 0, ["A"])))
            absgr.append(dict(init=True, rules=[dict(name="A", disp=None, e=T.fix_shape(e))]))
    for _ in range(n):
        absgr.append(T.rand_grammar(rng, depth=rng.choice([2, 3, 4])))
    ntapes = 3 if tier == "quick" else 6
    for g in absgr:
        for ti in range(ntapes):
            txt, exp = T.render_grammar(g, T.Tape(rng, boring=(ti == 0)))     # tape 0: the canonical print of the AST
            cases.append(dict(id=len(cases) + 1, text=list(txt), exp=exp))
    obs = hook_astdump([dict(id=c["id"], text=c["text"], mode="pigeon") for c in cases])
    for o in obs:
        o.setdefault("ast", EMPTY_AST)
        o.setdefault("errs", "")
        o.pop("panic", None)
    div, tot = asteq(cases, obs, "exp")
    # the command itself accepts the texts (-x: parse only)
    pigeon = P.build_pigeon()
    d = tempfile.mkdtemp(prefix="c03-", dir=P.workdir())
    sample = cases[:: max(1, len(cases) // (150 if tier == "quick" else 1500))]

    def cmd(c):
        pth = os.path.join(d, "c%d.peg" % c["id"])
        open(pth, "wb").write(bytes(c["text"]))
        p = subprocess.run([pigeon, "-x", pth], stdout=subprocess.PIPE, stderr=subprocess.PIPE, env=P.ENV, timeout=60)
        return p.returncode, p.stderr.decode(errors="replace")[-300:]
    nviol = 0
    rd = os.path.join(P.VERIF, "replays", "C03")
    for c, (rc, err) in zip(sample, P.parallel(cmd, sample)):
        if rc != 0:
            div.append(dict(k=c["id"], df="command-rejects", at=rc))
    for dd in div:
        nviol += 1
        if nviol <= 25:
            os.makedirs(rd, exist_ok=True)
            c = cases[dd["k"] - 1]
            rp = os.path.join(rd, "%s_%d.json" % (dd["df"].replace("/", "_").replace(":", "-")[:40], dd["k"]))
            json.dump(dict(property="C03", verdict=dd["df"], text=bytes(c["text"]).decode(errors="replace"), text_bytes=c["text"], expected=c["exp"],
                           observed=obs[dd["k"] - 1]), open(rp, "w"), indent=1)
            run.violation(rp, dd["df"])
    cov = dict(states=tot["states"], transitions=tot["transitions"], traces_validated_against_impl=tot["n"], evaluations=len(cases), distinct_nontrivial=len(absgr),
               rule="abstract grammars: every expression kind as the operand of every operator (18 x 18, systematic) + random grammars of depth 2-4 with 1-4 rules (all literal quotings and escape forms incl. \\x \\ooo \\u \\U, classes with ranges/escapes/\\pL/\\p{Name}/^/i, code blocks with nested braces, strings and comments, code predicates, state blocks, throw, left-associative recover, display names, Unicode identifiers); each rendered with the canonical spelling (the print of the AST) and with random choice tapes (4 definition operators, layout, comments, terminators, redundant parentheses); the real front-end's AST (hook) must equal the AST the text was rendered from, node by node incl. positions = PegRef.LineCol(offset of the production's first token); a sample also goes through 'pigeon -x'",
               samples=[dict(text=bytes(c["text"]).decode(errors="replace")) for c in cases[1::max(1, len(cases) // 4)][:4]],
               texts=len(cases), abstract_grammars=len(absgr), command_runs=len(sample), violating=nviol)
    return run.finish("model_checking", cov, ["lib/pegtext.py is the specification of the concrete syntax (a renderer with a choice tape); an escaped dash inside a class is not generated (candidate finding F18)"])


def check_C20(tier, seed, replay=None):
    """bootstrap chain: (a) bootstrap front-end == pigeon front-end on the bootstrap subset; (b) regeneration is a fixpoint"""
    import pegtext as T, subprocess, shutil, hashlib, re, tempfile
    run = Run("C20", tier, seed)
    rng = random.Random(seed)
    # ---- (b) regeneration fix-point on a scratch copy of the working tree ----
    scratch = tempfile.mkdtemp(prefix="regen-", dir=P.workdir())
    wt = os.path.join(scratch, "repo")
    tracked = subprocess.run(["git", "-C", P.REPO, "ls-files"], stdout=subprocess.PIPE, text=True).stdout.split("\n")
    tracked = [f for f in tracked if f]
    for f in tracked:
        src = os.path.join(P.REPO, f)
        if os.path.exists(src):
            dst = os.path.join(wt, f)
            os.makedirs(os.path.dirname(dst), exist_ok=True)
            shutil.copy2(src, dst)
    mk = open(os.path.join(wt, "Makefile")).read()
    # the Makefile's rules: target: deps (generated .go files only)
    rules = []
    for m in re.finditer(r"^(\S+\.go):\s*((?:[^\n\\]|\\\n)*)\n((?:\t[^\n]*\n)+)", mk, re.M):
        tgt = m.group(1)
        deps = [x for x in m.group(2).replace("\\\n", " ").split() if x]
        rules.append([tgt, deps, m.group(3)])
    var = dict(re.findall(r"^(\w+)\s*=\s*(.*)$", mk, re.M))

    def expand(s):
        for _ in range(6):
            s = re.sub(r"\$\((\w+)\)", lambda mm: var.get(mm.group(1), mm.group(0)), s)
        return os.path.normpath(s) if "$" not in s else s

    def digest(p):
        try:
            return hashlib.sha256(open(os.path.join(wt, p), "rb").read()).hexdigest()
        except FileNotFoundError:
            return "absent"
    targets = [(expand(t), [expand(x) for x in dp]) for t, dp, _ in rules]
    gen_tracked = [f for f in tracked if f.endswith(".go") and open(os.path.join(P.REPO, f), "rb").read(200).startswith(b"// Code generated")]
    before = {t: digest(t) for t, _ in targets}
    before_all = {f: digest(f) for f in gen_tracked}
    p = subprocess.run(["make", "-B", "all"], cwd=wt, stdout=subprocess.PIPE, stderr=subprocess.STDOUT, env=P.ENV, timeout=1800)
    if p.returncode != 0:
        raise P.Inconclusive("make -B all failed in the scratch copy:\n" + p.stdout.decode(errors="replace")[-2000:])
    order = []
    for ln in p.stdout.decode(errors="replace").splitlines():
        m = re.search(r">\s*(\S+\.go)\s*$", ln) or re.search(r"static_code_generator \S+ (\S+\.go) ", ln)
        if m:
            order.append(os.path.normpath(m.group(1)))
    tnames = [t for t, _ in targets]
    log = []
    for t in order:
        if t in tnames:
            deps = [dp for tt, dp in targets if tt == t][0]
            log.append(dict(target=t, deps=deps, before=before[t], after=digest(t), tracked=t in tracked))
    missing = [f for f in gen_tracked if f not in tnames]
    r = P.run_tlc("Bootstrap", P.T1_CFG, {"regen.ndjson": ("text", "".join(json.dumps(x) + "\n" for x in log)),
                                         "rules.json": ("text", json.dumps(dict(targets=[[t, dp] for t, dp in targets])))}, workers=1, timeout=600, heap="2g")
    if "DONE" not in r["out"]:
        raise P.Inconclusive("Bootstrap.tla did not finish:\n" + r["out"][-2000:])
    rd = os.path.join(P.VERIF, "replays", "C20")
    changed = [f for f in gen_tracked if digest(f) != before_all[f]]
    # the other documented route to the static-code string tables: the //go:generate directives of builder/static_code*.go
    # (the generator then runs inside builder/ with bare file names)
    p2 = subprocess.run(["go", "generate", "-tags", "static_code", "./builder"], cwd=wt, stdout=subprocess.PIPE, stderr=subprocess.STDOUT, env=P.ENV, timeout=900)
    if p2.returncode != 0:
        raise P.Inconclusive("go generate ./builder failed in the scratch copy:\n" + p2.stdout.decode(errors="replace")[-1500:])
    changed += [f for f in gen_tracked if f not in changed and digest(f) != before_all[f]]
    for f in changed:
        os.makedirs(rd, exist_ok=True)
        a = open(os.path.join(P.REPO, f), errors="replace").read().split("\n")
        b = open(os.path.join(wt, f), errors="replace").read().split("\n")
        first = next((i for i, (x, y) in enumerate(zip(a, b)) if x != y), min(len(a), len(b)))
        rp = os.path.join(rd, "regen_%s.json" % hashlib.sha1(f.encode()).hexdigest()[:8])
        json.dump(dict(property="C20", verdict="regenerating this checked-in file from its source changes it", artifact=f, first_differing_line=first + 1,
                       checked_in=a[first] if first < len(a) else "", regenerated=b[first] if first < len(b) else ""), open(rp, "w"), indent=1)
        run.violation(rp, "not a fixpoint: " + f)
    for m_ in re.finditer(r'"DIVERGE (.*)"', r["out"]):
        js = json.loads(m_.group(1).replace('\\"', '"'))
        if js["df"] == "order":
            run.notes.append("regeneration order differs from the dependency order of the Makefile rules at event %d" % js["k"])
    if missing:
        run.notes.append("checked-in generated files that are the target of no Makefile rule: %s" % missing[:5])
    shutil.rmtree(scratch, ignore_errors=True)
    # ---- (a) bootstrap front-end vs pigeon front-end ----
    n = 500 if tier == "quick" else 20000
    cases = []
    for i in range(n):
        g = T.rand_grammar(rng, depth=rng.choice([1, 2, 3]))
        inside = rng.random() < 0.85
        if inside:
            g = bootstrap_subset(g, rng)
        txt, exp = T.render_grammar(g, BootTape(rng) if inside else T.Tape(rng))
        cases.append(dict(id=len(cases) + 1, text=list(txt), exp=EMPTY_AST))
        if inside and i % 3 == 0:
            # the same text with some of its blanks removed: tokens glued together (a literal or class directly followed by an
            # identifier, by another literal, by a parenthesis, ...).  Whatever the text then means, the two front-ends must agree.
            sq = bytes(b for b in txt if not (b == 32 and rng.random() < 0.5))
            if sq != txt:
                cases.append(dict(id=len(cases) + 1, text=list(sq), exp=EMPTY_AST))
    # tokens glued to a following identifier that starts with i (the ignore-case suffix is decided by the scanner)
    for lit in ('"x"', "'x'", "`x`", "[0-9]", '"x"i', "[a]i"):
        for nxt in ("in", "id1", "i", "i9", "if1", "n", "_i", "i_"):
            for tail in ("", " 'z'"):
                txt = ("A = %s%s%s\nin = 'a'\nid1 = 'b'\ni = 'c'\ni9 = 'd'\nif1 = 'e'\nn = 'f'\n_i = 'g'\ni_ = 'h'\n" % (lit, nxt, tail)).encode()
                cases.append(dict(id=len(cases) + 1, text=list(txt), exp=EMPTY_AST))
    for root, _, files in os.walk(os.path.join(P.REPO, "grammar")):
        for fn in files:
            if fn.endswith(".peg"):
                cases.append(dict(id=len(cases) + 1, text=list(open(os.path.join(root, fn), "rb").read()), exp=EMPTY_AST))
    # grammars of several thousand bytes with runs of multi-byte characters (in literals, classes and code blocks) lying across
    # the offsets 4096, 8192, ...: a front-end that reads its source in chunks must not cut a character in two; four shifts
    # of the same text so that every alignment of a 2-, 3- and 4-byte character with a chunk boundary occurs
    def big_text(shift, kind):
        runes = "\u00e9\u20ac\U0001F600\u00fc\u4e2d"
        run_ = "".join(runes[(i * 7 + shift) % len(runes)] for i in range(260))
        out, n = [" " * shift], 0
        while sum(len(x.encode()) for x in out) < 9000:
            size = sum(len(x.encode()) for x in out)
            near = any(0 < b - size < 160 for b in (4096, 8192))
            if near:
                if kind == 0:
                    out.append('L%d = "%s"i / \'x\'\n' % (n, run_))
                elif kind == 1:
                    out.append("L%d = [%s] 'y'\n" % (n, run_))
                else:
                    out.append('L%d = "a" { return "%s", nil }\n' % (n, run_))
            else:
                out.append('R%d = "k%d" R%d? / [a-z]+ "%s"\n' % (n, n, max(n - 1, 0), runes[n % len(runes)]))
            n += 1
        return "".join(out).encode()
    for shift in range(4):
        for kind in range(3):
            cases.append(dict(id=len(cases) + 1, text=list(big_text(shift, kind)), exp=EMPTY_AST))
    # the witness of known finding F40 (always the last case)
    cases.append(dict(id=len(cases) + 1, text=list(b"A = 'a' { // {\n return nil, nil }\nB = 'b' { return \"}\", nil }\n"), exp=EMPTY_AST))
    ob = hook_astdump([dict(id=c["id"], text=c["text"], mode="bootstrap") for c in cases])
    op = hook_astdump([dict(id=c["id"], text=c["text"], mode="pigeon") for c in cases])
    obs = []
    for a, b in zip(ob, op):
        obs.append(dict(id=a["id"], ok=bool(a.get("ok")) and "ast" in a, ast=a.get("ast", EMPTY_AST), ok2=bool(b.get("ok")) and "ast" in b, ast2=b.get("ast", EMPTY_AST)))
    div, tot = asteq(cases, obs, "pair")
    understood = sum(1 for o in obs if o["ok"])
    nviol = 0
    # known finding F40: the bootstrap scanner finds the end of a code block by counting braces byte by byte, also inside the
    # comments and string literals of the Go code; the pigeon front-end skips those.  A text in which some code block (as the
    # pigeon front-end delimits it) is not balanced under raw counting is scanned differently by the bootstrap front-end;
    # when the stray braces of several blocks happen to cancel out it accepts the text with other rules.
    import findings

    def raw_unbalanced(n):
        if n.get("t") == "Code":
            depth = 0
            for b in n.get("val", [])[1:-1]:
                depth += 1 if b == 123 else (-1 if b == 125 else 0)
                if depth < 0:
                    return True
            return depth != 0
        return any(raw_unbalanced(k) for k in n.get("kids", []))
    wit40 = len(cases) - 1
    hit40 = [dd for dd in div if raw_unbalanced(obs[dd["k"] - 1]["ast2"])]
    if any(dd["k"] - 1 == wit40 for dd in hit40):
        run.known.append("F40: " + findings.what("F40"))
    elif any(f["id"] == "F40" for f in findings.active("C20")):
        run.notes.append("known finding F40: its witness no longer fails on this tree (entry can be retired)")
    div = [dd for dd in div if dd not in hit40]
    for dd in div:
        nviol += 1
        if nviol <= 25:
            os.makedirs(rd, exist_ok=True)
            c = cases[dd["k"] - 1]
            rp = os.path.join(rd, "frontends_%s_%d.json" % (dd["df"].replace("/", "_").replace(":", "-")[:40], dd["k"]))
            json.dump(dict(property="C20", verdict=dd["df"], text=bytes(c["text"]).decode(errors="replace"), bootstrap=obs[dd["k"] - 1]["ast"], pigeon=obs[dd["k"] - 1]["ast2"]), open(rp, "w"), indent=1)
            run.violation(rp, "front-ends differ: " + dd["df"])
    cov = dict(programs=len(cases) + len(log), disagreements_checked=understood + len(gen_tracked), samples=[dict(text=bytes(c["text"]).decode(errors="replace")) for c in cases[:3]],
               evaluations=len(cases) + len(gen_tracked), distinct_nontrivial=understood,
               rule="(a) random grammar texts, 85% spelled inside the bootstrap subset (no code predicates / state blocks / throw / recover, no comments outside code blocks, rule bodies on one line), plus grammar/*.peg; both front-ends through the hook; a verdict only when the BOOTSTRAP front-end reports no error (that is what 'understood by' means): then the pigeon front-end must accept and TLC (AstEq.tla, pair mode) compares the two ASTs structurally, positions and display-name quoting projected away. (b) a scratch copy of the working tree is regenerated with the repository's own Makefile (make -B all); every checked-in generated file must be byte-identical afterwards; the log of Regen events is validated against Bootstrap.tla (one rule per target, dependency order, every Regen a stuttering step)",
               texts=len(cases), understood_by_bootstrap=understood, regen_events=len(log), generated_files_compared=len(gen_tracked), files_changed_by_regeneration=len(changed),
               states=tot["states"] + r.get("distinct", 0), transitions=tot["transitions"] + r.get("generated", 0), violating=nviol)
    return run.finish("translation_validation", cov, ["the bootstrap subset is defined by the bootstrap front-end's own acceptance"])


class BootTape:
    """spellings inside the bootstrap subset: single spaces, no comments outside code blocks, any definition operator,
    newline or semicolon terminators, every literal quoting and escape form"""
    def __init__(self, rng):
        self.rng, self.boring = rng, False

    def pick(self, n, kind=None):
        if kind == "ws":
            return 1
        if kind == "term":
            return self.rng.choice([0, 0, 1])
        return self.rng.randrange(n)

    def chance(self, p):
        return False


def bootstrap_subset(g, rng):
    """rewrite an abstract grammar so that it avoids what the hand-written bootstrap front-end does not know"""
    def fix(e):
        k = e["k"]
        if k in ("State", "AndCode", "NotCode", "Throw"):
            return dict(k="Any")
        if k == "Recover":
            return fix(e["e"])
        if k in ("Seq", "Choice"):
            e["es"] = [fix(x) for x in e["es"]]
            return e
        if "e" in e:
            e["e"] = fix(e["e"])
        return e
    for r in g["rules"]:
        r["e"] = fix(r["e"])
    return g
