"""Per-property checks (DESIGN.md section 3)."""
import json, os, random
import pipeline as P
import families as F
from rt import Run, opt, FLAGSETS_8, FLAGSETS_2


def renumber(groups):
    for i, g in enumerate(groups):
        if g.gi != i + 1:
            raise ValueError("groups must be created with consecutive ids")
    return groups


def sample_cases(run, n=3):
    out = []
    for g in run.groups[:: max(1, len(run.groups) // n)][:n]:
        out.append(dict(grammar=g.text(), inputs=[bytes(i).decode(errors="replace") for i in run.inputs[:4]]))
    return out


def std_finish(run, div, tot, rule, classify=None, level="model_checking", extra=None):
    nviol = 0
    ksamples, kcount = {}, {}
    for d in div:
        k = classify(run, d) if classify else None
        if k:
            if k not in run.known:
                run.known.append(k)
            ksamples.setdefault(k.split(":")[0], [])
            if len(ksamples[k.split(":")[0]]) < 3:
                g = run.groups[d["gi"] - 1]
                ksamples[k.split(":")[0]].append(dict(grammar=g.text(), input=run.inputs[d["ii"] - 1], options=run.options[d["oi"] - 1], df=d["df"]))
            kcount[k.split(":")[0]] = kcount.get(k.split(":")[0], 0) + 1
            continue
        nviol += 1
        if nviol <= 25:
            run.violation(run.replay_path(d), "df=%s gi=%d ii=%d oi=%d vi=%d" % (d["df"], d["gi"], d["ii"], d["oi"], d["vi"]))
    cov = dict(states=tot["states"], transitions=tot["transitions"], traces_validated_against_impl=tot["n"],
               evaluations=tot["n"], distinct_nontrivial=len(run.groups), rule=rule, samples=sample_cases(run),
               groups=len(run.groups), variants=len(run.variants), divergences=len(div), violating_parses=nviol, suppressed_by_known_finding=kcount, known_finding_samples=ksamples,
               trusted_base=["Go toolchain", "TLC 1.8.0", "the harness printer/runner (lib/peg.py, runner/*.go)"])
    if extra:
        cov.update(extra)
    return run.finish(level, cov, ["PegRef.tla is the independent definition of the parse result; unicode folding restricted to the model alphabet"])


# ------------------------------------------------------------------------------------------
def check_C01(tier, seed, replay=None):
    run = Run("C01", tier, seed)
    if tier == "quick":
        trees = F.exhaustive(1, F.LEAVES_FULL)
        nrand, maxlen = 600, 3
        flagsets = FLAGSETS_8
    else:
        trees = F.exhaustive(2, F.LEAVES_SMALL)
        nrand, maxlen = 3000, 4
        flagsets = FLAGSETS_8
    groups = F.groups_from_trees(trees)
    cfg = F.RandCfg(depth=4, maxrules=3, safe_rep=False)
    groups += F.random_groups(seed, nrand, cfg, gi0=len(groups) + 1)
    inputs = F.all_inputs([F.A, F.B, F.UA], maxlen)
    options = [opt(), opt(maxexpr=3000), opt(entry="-")]
    allin = list(range(len(inputs)))

    def plan_for(g):
        oi = 1 if g.maydiverge else 0
        return [(ii, oi) for ii in allin]
    div, tot = run.execute(groups, inputs, options, plan_for, flagsets)
    return std_finish(run, div, tot, "E(d) exhaustive single-rule grammars + random multi-rule grammars x all inputs up to the bound x flag sets; a group is distinct by construction (enumeration) and non-trivial when it has at least one operator")


# ------------------------------------------------------------------------------------------
def check_C02(tier, seed, replay=None):
    """code blocks observe the true match context: every event (also on abandoned alternatives) is compared"""
    import findings
    run = Run("C02", tier, seed)
    R = F.RUNES
    if tier == "quick":
        trees = F.exhaustive(1, F.LEAVES_UTF8 + F.PRED_LEAVES + [("state", "set", "x", 1)])
        nrand, maxlen = 500, 3
        flagsets = FLAGSETS_2 + [["-optimize-parser"]]
        alpha = [R["a"], R["nl"], R["eacute"], R["euro"]]
    else:
        trees = F.exhaustive(1, F.LEAVES_UTF8 + F.PRED_LEAVES + [("state", "set", "x", 1)], ternary=False)
        nrand, maxlen = 4000, 4
        flagsets = FLAGSETS_8
        alpha = [R["a"], R["b"], R["nl"], R["eacute"], R["euro"]]
    # every expression of the family is wrapped so that a labelled value reaches a block
    trees = [("lact", t, ("lit", (), False)) for t in trees] + trees
    groups = F.groups_from_trees(trees)
    cfg = F.RandCfg(depth=4, maxrules=3, leaves=F.LEAVES_UTF8 + F.LEAVES_FULL, preds=True, state=True, cloner=True)
    groups += F.random_groups(seed, nrand, cfg, gi0=len(groups) + 1)
    inputs = F.all_inputs(alpha, maxlen)
    options = [opt(), opt(memo=True), opt(maxexpr=3000), opt(maxexpr=3000, memo=True)]
    nin = len(inputs)
    run.add_witnesses([f["id"] for f in findings.active("C02")], groups, inputs, options)

    def plan_for(g):
        return [(ii, oi) for ii in range(nin) for oi in ((2,) if g.maydiverge else (0, 1))]
    div, tot = run.execute(groups, inputs, options, plan_for, flagsets, lower=[[201, 233]], cmp=dict(ctx=True))
    return std_finish(run, div, tot, "block placements over E(1) with multi-byte and newline terminals + random multi-rule grammars with actions, predicates, state blocks and labels x all inputs over {a,\\n,e-acute,euro} up to the bound x {default, Memoize}; every code-block event is compared")


# ------------------------------------------------------------------------------------------
def budget_plan(nin, default_ois=(0,), budget_oi=1):
    def plan_for(g):
        return [(ii, oi) for ii in range(nin) for oi in ((budget_oi,) if g.maydiverge else default_ois)]
    return plan_for


def check_C05(tier, seed, replay=None):
    """backtracking rolls back the state store (incl. Cloner values); globalStore is never rolled back"""
    import findings
    run = Run("C05", tier, seed)
    if tier == "quick":
        trees = F.exhaustive(1, F.LEAVES_SMALL + F.STATE_LEAVES)
        nrand, maxlen, flagsets = 500, 3, [[], ["-optimize-parser"], ["-optimize-parser", "-optimize-basic-latin", "-nolint"]]
    else:
        trees = F.exhaustive(2, [("lit", (F.A,), False), ("lit", (), False), ("state", "inc", "x", 1), ("state", "app", "cl", 2), ("pred", False, "eq", "x", 1)])
        nrand, maxlen, flagsets = 4000, 4, FLAGSETS_8
    groups = F.groups_from_trees(trees)
    cfg = F.RandCfg(depth=4, maxrules=3, state=True, cloner=True, gstore=True, preds=True)
    groups += F.random_groups(seed, nrand, cfg, gi0=len(groups) + 1)
    inputs = F.all_inputs([F.A, F.B], maxlen)
    options = [opt(), opt(maxexpr=3000)]
    nin = len(inputs)
    div, tot = run.execute(groups, inputs, options, budget_plan(nin), flagsets)
    return std_finish(run, div, tot, "state blocks (shallow set/inc, in-place Cloner append, globalStore increments) at every position of E(d) skeletons + random grammars with state predicates; every event carries the store and globalStore its block saw and the entry action returns the final store; all inputs over {a,b} up to the bound")


def classify_F2(run, d):
    """known finding F2: with Memoize a cache hit on an expression that binds a label skips the binding"""
    import findings
    if run.options[d["oi"] - 1]["memo"] and "memolabel" in d.get("haz", []) and d["df"] in ("val", "event-notallowed", "pair-val", "pair-errs"):
        return "F2: " + findings.what("F2")
    return None


def double_reach_groups(rng, n, gi0):
    """the same rule reached at one offset along two different paths"""
    from peg import Gram
    out = []
    for i in range(n):
        g = Gram(gi0 + i)
        sub_cfg = F.RandCfg(depth=3, maxrules=1, preds=True)
        # rule 2: x* then labelled things under an action
        body = g.action(g.seq([g.un("star", g.lit([F.A])), g.label(g.cls((F.A, F.B), (), False, False)),
                               g.un("opt", g.label(g.lit([F.B])))]))
        alts = []
        for _ in range(rng.randint(2, 3)):
            pre = [g.lit([F.A])] * rng.randint(0, 2)
            suf = [rng.choice([g.lit([F.B]), g.lit([F.UA], True), g.any(), g.un("not", g.any())])]
            alts.append(g.seq(pre + [g.label(g.ref(2))] + suf) if rng.random() < 0.5 else g.action(g.seq(pre + [g.label(g.ref(2))] + suf)))
        g.rules = [g.choice(alts), body]
        g.disp = ["", ""]
        g.compute_args()
        g.maydiverge = g.may_diverge()
        out.append(g)
    return out


def check_C06(tier, seed, replay=None):
    """Memoize, Debug, Statistics never change results; Memoize bounds the work"""
    import findings
    from rt import pairwise, load_obs
    run = Run("C06", tier, seed)
    rng = random.Random(seed)
    if tier == "quick":
        trees = F.exhaustive(1, F.LEAVES_FULL + F.PRED_LEAVES)
        nrand, ndr, maxlen = 400, 60, 3
    else:
        trees = F.exhaustive(2, F.LEAVES_SMALL + [("pred", False, "true")])
        nrand, ndr, maxlen = 3000, 400, 4
    groups = F.groups_from_trees(trees)
    cfg = F.RandCfg(depth=4, maxrules=3, preds=True, errs=0.2)
    groups += F.random_groups(seed, nrand, cfg, gi0=len(groups) + 1)
    groups += double_reach_groups(rng, ndr, len(groups) + 1)
    inputs = F.all_inputs([F.A, F.B, F.UA], maxlen)
    combos = [(m, d, s) for m in (False, True) for d in (False, True) for s in (False, True)]
    options = [opt(memo=m, debug=d, stats=s) for (m, d, s) in combos] + [opt(memo=m, debug=d, stats=s, maxexpr=3000) for (m, d, s) in combos]
    nin = len(inputs)
    run.add_witnesses([f["id"] for f in findings.active("C06")], groups, inputs, options)

    def plan_for(g):
        # Memoize on a grammar that iterates without consuming never returns (known finding F3, C16): not run here
        ois = [8 + i for i, c in enumerate(combos) if not c[0]] if g.maydiverge else range(8)
        return [(ii, oi) for ii in range(nin) for oi in ois]
    div, tot = run.execute(groups, inputs, options, plan_for, [[], ["-optimize-basic-latin", "-nolint"]])
    # real-vs-real: every option combination against the default run of the same parser
    npairs = 0
    for vx in range(len(run.variants)):
        obs = load_obs(run.obs[vx])
        for (gi, ii, oi), o in obs.items():
            base = obs.get((gi, ii, 1 if oi <= 8 else 9))
            if base is None or o is base or gi in run.wit:
                continue
            npairs += 1
            for fld in ("status", "ok", "end", "val", "errs", "nomatch"):
                if o[fld] != base[fld]:
                    div.append(dict(k=o["k"], vi=o["vi"], gi=gi, ii=ii, oi=oi, df="pair-" + fld, at=0, haz=["memolabel"] if any(
                        d2["gi"] == gi and d2["ii"] == ii and "memolabel" in d2.get("haz", []) for d2 in div) else []))
                    break
    return std_finish(run, div, tot, "pure-block grammars (E(d) with predicates, random multi-rule, double-reach shapes: one rule reached at one offset along two paths) x all inputs x the 8 combinations of Memoize/Debug/Statistics; each compared with PegRef and with the default-option run of the same parser; ExprCnt <= expressions x (len+1) under Memoize",
                      classify=classify_F2, extra=dict(option_pairs_compared=npairs))


def check_C10(tier, seed, replay=None):
    """-optimize-parser output is observationally equivalent"""
    import findings
    from rt import pairwise
    run = Run("C10", tier, seed)
    n = 250 if tier == "quick" else 2000
    maxlen = 3 if tier == "quick" else 4
    groups = F.random_groups(seed, n, F.RandCfg(depth=4, safe_rep=False), 1)
    groups += F.random_groups(seed + 1, n, F.RandCfg(depth=4, state=True, cloner=True, gstore=True, preds=True, errs=0.2), len(groups) + 1)
    groups += F.random_groups(seed + 2, n, F.RandCfg(depth=4, throw=True, preds=True, errs=0.3, leaves=F.LEAVES_FULL + F.LEAVES_UTF8), len(groups) + 1)
    inputs = F.all_inputs([F.A, F.B, F.NL], maxlen)
    options = [opt(), opt(maxexpr=3000)]
    nin = len(inputs)
    xs = [[], ["-optimize-basic-latin"], ["-nolint"], ["-optimize-basic-latin", "-nolint"]]
    flagsets = [f for x in xs for f in (x, x + ["-optimize-parser"])]
    div, tot = run.execute(groups, inputs, options, budget_plan(nin), flagsets, lower=[[201, 233]])
    pairs = [(i, i + 1) for i in range(0, len(run.variants), 2)]
    d2, npairs = pairwise(run, pairs, fields=("status", "ok", "end", "val", "errs", "nomatch", "escaped"))
    div += [d for d in d2 if d["gi"] not in run.wit]
    # complete removal of the state store when the grammar has no state blocks
    removed = 0
    for v in run.variants:
        if v.optimized and not v.state_on:
            src = open(os.path.join(v.dir, "g.go")).read()
            removed += 1
            if "storeDict)" in src and "func (p *parser) cloneState" in src:
                run.violation(run.replay_path(dict(k=0, vi=v.vi, gi=v.groups[0].gi, ii=1, oi=1, df="state-not-removed", at=0)), "state store code present in an optimized parser without state blocks")
    return std_finish(run, div, tot, "random grammars (plain, with state/Cloner/globalStore/predicates/errors, with throw/recover and multi-byte terminals) x all inputs x flag pairs (X, X + -optimize-parser), X over the other flags; each run compared with PegRef and the two members of a pair with each other (value, error list)",
                      extra=dict(pairs_compared=npairs, stateless_optimized_parsers_checked=removed))
