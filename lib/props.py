"""Per-property checks (DESIGN.md section 3)."""
import json, os, random
import pipeline as P
import families as F
from rt import Run, opt, FLAGSETS_8, FLAGSETS_2


def renumber(groups):
    for i, g in enumerate(groups):
        if g.gi != i + 1:
            raise ValueError("groups must be created with consecutive ids")
    return groups


def sample_cases(run, n=3):
    out = []
    for g in run.groups[:: max(1, len(run.groups) // n)][:n]:
        out.append(dict(grammar=g.text(), inputs=[bytes(i).decode(errors="replace") for i in run.inputs[:4]]))
    return out


def std_finish(run, div, tot, rule, classify=None, level="model_checking", extra=None):
    nviol = 0
    for d in div:
        k = classify(run, d) if classify else None
        if k:
            if k not in run.known:
                run.known.append(k)
            continue
        nviol += 1
        if nviol <= 25:
            run.violation(run.replay_path(d), "df=%s gi=%d ii=%d oi=%d vi=%d" % (d["df"], d["gi"], d["ii"], d["oi"], d["vi"]))
    cov = dict(states=tot["states"], transitions=tot["transitions"], traces_validated_against_impl=tot["n"],
               evaluations=tot["n"], distinct_nontrivial=len(run.groups), rule=rule, samples=sample_cases(run),
               groups=len(run.groups), variants=len(run.variants), divergences=len(div), violating_parses=nviol,
               trusted_base=["Go toolchain", "TLC 1.8.0", "the harness printer/runner (lib/peg.py, runner/*.go)"])
    if extra:
        cov.update(extra)
    return run.finish(level, cov, ["PegRef.tla is the independent definition of the parse result; unicode folding restricted to the model alphabet"])


# ------------------------------------------------------------------------------------------
def check_C01(tier, seed, replay=None):
    run = Run("C01", tier, seed)
    if tier == "quick":
        trees = F.exhaustive(1, F.LEAVES_FULL)
        nrand, maxlen = 600, 3
        flagsets = FLAGSETS_8
    else:
        trees = F.exhaustive(2, F.LEAVES_SMALL)
        nrand, maxlen = 3000, 4
        flagsets = FLAGSETS_8
    groups = F.groups_from_trees(trees)
    cfg = F.RandCfg(depth=4, maxrules=3, safe_rep=False)
    groups += F.random_groups(seed, nrand, cfg, gi0=len(groups) + 1)
    inputs = F.all_inputs([F.A, F.B, F.UA], maxlen)
    options = [opt(), opt(maxexpr=3000), opt(entry="-")]
    allin = list(range(len(inputs)))

    def plan_for(g):
        oi = 1 if g.maydiverge else 0
        return [(ii, oi) for ii in allin]
    div, tot = run.execute(groups, inputs, options, plan_for, flagsets)
    return std_finish(run, div, tot, "E(d) exhaustive single-rule grammars + random multi-rule grammars x all inputs up to the bound x flag sets; a group is distinct by construction (enumeration) and non-trivial when it has at least one operator")


# ------------------------------------------------------------------------------------------
def check_C02(tier, seed, replay=None):
    """code blocks observe the true match context: every event (also on abandoned alternatives) is compared"""
    import findings
    run = Run("C02", tier, seed)
    R = F.RUNES
    if tier == "quick":
        trees = F.exhaustive(1, F.LEAVES_UTF8 + F.PRED_LEAVES + [("state", "set", "x", 1)])
        nrand, maxlen = 500, 3
        flagsets = FLAGSETS_2 + [["-optimize-parser"]]
        alpha = [R["a"], R["nl"], R["eacute"], R["euro"]]
    else:
        trees = F.exhaustive(1, F.LEAVES_UTF8 + F.PRED_LEAVES + [("state", "set", "x", 1)], ternary=False)
        nrand, maxlen = 4000, 4
        flagsets = FLAGSETS_8
        alpha = [R["a"], R["b"], R["nl"], R["eacute"], R["euro"]]
    # every expression of the family is wrapped so that a labelled value reaches a block
    trees = [("lact", t, ("lit", (), False)) for t in trees] + trees
    groups = F.groups_from_trees(trees)
    cfg = F.RandCfg(depth=4, maxrules=3, leaves=F.LEAVES_UTF8 + F.LEAVES_FULL, preds=True, state=True, cloner=True)
    groups += F.random_groups(seed, nrand, cfg, gi0=len(groups) + 1)
    inputs = F.all_inputs(alpha, maxlen)
    options = [opt(), opt(memo=True), opt(maxexpr=3000), opt(maxexpr=3000, memo=True)]
    nin = len(inputs)
    run.add_witnesses([f["id"] for f in findings.active("C02")], groups, inputs, options)

    def plan_for(g):
        return [(ii, oi) for ii in range(nin) for oi in ((2,) if g.maydiverge else (0, 1))]
    div, tot = run.execute(groups, inputs, options, plan_for, flagsets, lower=[[201, 233]])
    return std_finish(run, div, tot, "block placements over E(1) with multi-byte and newline terminals + random multi-rule grammars with actions, predicates, state blocks and labels x all inputs over {a,\\n,e-acute,euro} up to the bound x {default, Memoize}; every code-block event is compared")
