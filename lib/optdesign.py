"""C09 at design level, bound to the real optimizer: spec/Optimize.tla

 1. the grammar ast.Optimize really produces (dumped through the verif hook of package main) is translated back into
    the node table of the reference semantics and TLC compares its meaning under PegRef with the meaning of the
    original, for every input up to the bound and every protected entry rule (ObsMeaning).  No parser is generated:
    this judges the optimizer alone, on many more grammars than the generated-parser runs can afford.
 2. on a sub-family of small grammars TLC explores every order of the rewrites of Optimize.tla, checks SameMeaning
    in every reachable state, and reports whether the grammar the real optimizer produced is one of the reachable
    states (Probe).  A grammar that is not reachable is model drift (a note), not a verdict.
"""
import copy
import json
import os
import random
import re
import tempfile

import pipeline as P
from peg import FIELDS, dump_groups, lit_want

KIND = dict(Lit=1, Class=2, Any=3, Seq=4, Choice=5, Label=6, Action=7, Ref=8, And=9, Not=10, Opt=11, Star=12, Plus=13,
            State=14, AndCode=15, NotCode=16, Throw=17, Recover=18)
KNAME = {1: "lit", 2: "cls", 3: "any", 4: "seq", 5: "choice", 6: "label", 7: "action", 8: "ref", 9: "and", 10: "not", 11: "opt",
         12: "star", 13: "plus", 14: "state", 15: "andcode", 16: "notcode", 17: "throw", 18: "recover"}
BLK = re.compile(r"\b(?:act|st|pr)\(\w+, (\d+)")


def lower(r, ic):
    if not ic:
        return r
    c = chr(r).lower()
    return ord(c) if len(c) == 1 else r


def runes(val):
    return [ord(c) for c in bytes(val).decode("utf-8", errors="replace")]


class Back:
    """translate the AST dump of one optimized grammar back into a node table (same rule numbering as the original)"""

    def __init__(self, g, labels):
        self.g = g
        self.labels = labels
        self.nodes = []
        self.byblk = {n["blk"]: n for n in g.nodes if n["blk"]}
        self.ruleix = {g.rname(i + 1): i + 1 for i in range(len(g.rules))}

    def mk(self, **kw):
        n = {k: (list(v) if isinstance(v, list) else v) for k, v in FIELDS.items()}
        n.update(kw)
        self.nodes.append(n)
        return len(self.nodes)

    def labcode(self, name):
        if name == "":
            return 0
        if name not in self.labels:
            self.labels.append(name)
        return self.labels.index(name) + 1

    def conv(self, d):
        """-> (node id, canonical ints)"""
        t = d["t"]
        k = KIND.get(t)
        if k is None:
            raise P.Inconclusive("optimizer dump: unexpected node %s" % t)
        kids = d["kids"]
        if t in ("Action", "State", "AndCode", "NotCode"):
            code = bytes(kids[-1]["val"]).decode()
            m = BLK.search(code)
            if not m:
                raise P.Inconclusive("optimizer dump: code block without id: %r" % code)
            blk = int(m.group(1))
            o = copy.deepcopy(self.byblk[blk])
            sub = [self.conv(kids[0])] if t == "Action" else []
            o["kids"] = [s[0] for s in sub]
            self.nodes.append(o)
            return len(self.nodes), [k, len(sub), blk] + [x for s in sub for x in s[1]]
        if t == "Lit":
            rs = runes(d["val"])
            return self.mk(k="lit", s=rs, ic=d["ic"], want=lit_want(rs, d["ic"])), [k, 0, int(d["ic"]), len(rs)] + [lower(r, d["ic"]) for r in rs]
        if t == "Class":
            ic = d["ic"]
            cs = sorted({lower(r, ic) for r in d["chars"]})
            rg = d["rngs"]
            rs = sorted({lower(rg[i], ic) * 2097152 + lower(rg[i + 1], ic) for i in range(0, len(rg), 2)})
            if d["ucl"]:
                raise P.Inconclusive("optimizer dump: unicode classes are not in the model alphabet")
            return (self.mk(k="cls", s=list(d["chars"]), rng=list(rg), ic=ic, inv=d["inv"], want=list(bytes(d["val"]))),
                    [k, 0, int(ic), int(d["inv"]), len(cs)] + cs + [len(rs)] + rs)
        if t == "Any":
            return self.mk(k="any"), [k, 0]
        if t == "Ref":
            ix = self.ruleix[d["name"]]
            return self.mk(k="ref", rule=ix), [k, 0, ix]
        if t == "Throw":
            return self.mk(k="throw", lab=d["name"]), [k, 0, self.labcode(d["name"])]
        sub = [self.conv(x) for x in kids]
        own = []
        kw = {}
        if t == "Label":
            kw["lab"] = d["name"]
            own = [self.labcode(d["name"])]
        if t == "Recover":
            kw["labs"] = list(d["labs"])
            own = [len(d["labs"])] + [self.labcode(x) for x in d["labs"]]
        return self.mk(k=KNAME[k], kids=[s[0] for s in sub], **kw), [k, len(sub)] + own + [x for s in sub for x in s[1]]

    def grammar(self, dump):
        rules = [0] * len(self.g.rules)
        canon = {}
        for r in dump["kids"]:
            if r["t"] != "Rule" or r["name"] == self.g.sname():
                continue
            ix = self.ruleix[r["name"]]
            rules[ix - 1], canon[ix] = self.conv(r["kids"][0])
        dummy = None
        for i in range(len(rules)):
            if rules[i] == 0:           # a dropped rule: nothing may reach it
                dummy = dummy or self.mk(k="throw", lab="dropped-rule")
                rules[i] = dummy
        flat = []
        for ix in sorted(canon):
            flat += [-ix] + canon[ix]
        case = self.g.to_case()
        case["nodes"], case["rules"] = self.nodes, rules
        return case, flat


def labels_of(g):
    out = []
    for n in g.nodes:
        for l in [n["lab"]] + list(n["labs"]):
            if l and l not in out:
                out.append(l)
    return out


def real_optimize(groups, protected):
    from props import hook_astdump
    reqs = []
    for i, g in enumerate(groups):
        text = "{\npackage main\n}\n" + g.render_rules()
        reqs.append(dict(id=i, text=list(text.encode()), mode="pigeon", optimize=True,
                         entry=[g.rname(1)] + [g.rname(k) for k in protected[i]]))
    out = hook_astdump(reqs)
    obs, flats, labels = [], [], []
    for g, r in zip(groups, out):
        if not r.get("ok") or "ast" not in r:
            raise P.Inconclusive("the optimizer hook failed on a grammar of the family: %s %s" % (r.get("errs"), r.get("panic")))
        lb = labels_of(g)
        case, flat = Back(g, lb).grammar(r["ast"])
        obs.append(case)
        flats.append(flat)
        labels.append(lb)
    return obs, flats, labels


def tlc(groups, obs, flats, labels, protected, inputs, explore, switches="", workers=12, timeout=3000):
    d = tempfile.mkdtemp(prefix="optd-", dir=P.workdir())
    gp = os.path.join(d, "groups.ndjson")
    dump_groups(groups, gp)
    op = os.path.join(d, "obsgroups.ndjson")
    with open(op, "w") as f:
        for c in obs:
            f.write(json.dumps(c) + "\n")
    from rt import opt
    tc = dict(inputs=inputs, options=[opt(maxexpr=0)], lower=[[201, 233]], uclass=[[0]], protected=protected, observed=flats, labels=labels)
    cfg = "SPECIFICATION Spec\nINVARIANTS SameMeaning ProtectedAlive NoDanglingRef ObsMeaning Probe\nCHECK_DEADLOCK FALSE\n"
    if "S" not in switches:
        cfg += "VIEW TreeView\n"
    cfg += "CONSTANTS\nShareLits = %s\nMergeInverted = %s\nLeakLabels = %s\nExplore = %s\n" % tuple(
        "TRUE" if x else "FALSE" for x in ("S" in switches, "M" in switches, "L" in switches, explore))
    r = P.run_tlc("Optimize", cfg, {"groups.ndjson": ("path", gp), "obsgroups.ndjson": ("path", op), "tcase.json": ("text", json.dumps(tc))},
                  workers=workers, timeout=timeout, heap="12g")
    out = r["out"]
    res = dict(states=r.get("distinct", 0), transitions=r.get("generated", 0), ok="No error has been found" in out, wall=round(r["wall"], 1))
    m = re.search(r"Invariant (\w+) is violated", out)
    if m:
        res["violated"] = m.group(1)
    elif not res["ok"]:
        i = out.find("Error:")
        raise P.Inconclusive("Optimize.tla did not complete:\n" + out[max(i, 0):max(i, 0) + 2500])
    res["reached"] = sorted({int(x) for x in re.findall(r'<<"REACHED", (\d+)>>', out)})
    res["obsdiff"] = sorted({tuple(int(y) for y in x) for x in re.findall(r'<<"OBSDIFF", (\d+), (\d+), (\d+)>>', out)})
    return res


def small(g):
    nrefs = sum(1 for x in g.nodes if x["k"] == "ref")
    return len(g.nodes) <= 14 and 1 <= nrefs <= 3


def family(seed, n):
    import props
    gs = props.c09_groups(seed, n) + props.c09_idiom_groups(seed + 3, n, n + 1)
    return [g for g in gs if "lr" not in g.tags]


def witnesses(gi0):
    """one grammar per deviation switch of Optimize.tla on which the deviation changes the meaning"""
    import families as F
    from peg import Gram
    out = []
    g = Gram(gi0)          # ShareLits: the literal of a leaf rule inlined twice, each time merged with its neighbour
    g.rules = [g.choice([g.seq([g.ref(2), g.lit([F.B])]), g.seq([g.ref(2), g.lit([99])])]), g.lit([F.A])]
    out.append(g)
    g = Gram(gi0 + 1)      # MergeInverted: [^a] / [^b] matches everything; [^ab] does not
    g.rules = [g.choice([g.cls((F.A,), (), True, False), g.cls((F.B,), (), True, False)])]
    out.append(g)
    g = Gram(gi0 + 2)      # LeakLabels: the inlined rule binds the label name its caller uses afterwards
    g.rules = [g.action(g.seq([g.label(g.lit([F.A]), "k"), g.ref(2)])), g.seq([g.label(g.lit([F.B]), "k"), g.lit([99])])]
    out.append(g)
    for g in out:
        g.disp = [""] * len(g.rules)
        g.compute_args()
        g.maydiverge = False
    return out


def protect(groups, seed):
    rng = random.Random(seed)
    return [[k for k in range(2, min(len(g.rules), 4) + 1) if rng.random() < 0.5] for g in groups]


def renumber(groups):
    out = []
    for i, g in enumerate(groups):
        g = copy.copy(g)
        g.gi = i + 1
        out.append(g)
    return out


def inputs_for(seed, maxlen, nrand):
    import families as F
    rng = random.Random(seed)
    inputs = F.all_inputs([F.A, F.B, 99, 100], maxlen)
    for _ in range(nrand):
        inputs.append([rng.choice([F.A, F.B, 99, 100, 101, 102, F.UA, 66, 95, 36, 48, 49]) for _ in range(rng.randint(1, 5))])
    return inputs


def group_from_case(gc):
    from peg import Gram
    g = Gram(gc["gi"])
    g.nodes, g.rules, g.lr = gc["nodes"], gc["rules"], gc["lr"]
    g.disp = [""] * len(g.rules)
    return g


def replay(rec):
    """one (grammar, protected rules, entry rule, input) of the ObsMeaning check against the current tree"""
    g = group_from_case(rec["group"])
    prot = [rec["protected"]]
    obs, flats, labels = real_optimize([g], prot)
    r = tlc([g], obs, flats, labels, prot, [rec["input"]], False, workers=1, timeout=600)
    return [d for d in r["obsdiff"] if d[1] == rec["entry_rule"]]


def check(run, seed, tier):
    """-> list of (replay path, what) for the violations of ObsMeaning; coverage and notes go to `run`"""
    import hashlib
    nfam, nsmall, maxlen, nrand = (200, 80, 3, 30) if tier == "quick" else (2500, 400, 3, 120)
    fam = family(seed + 11, nfam)
    wit = witnesses(fam[-1].gi + 1)
    fam += wit
    prot = protect(fam, seed)
    obs, flats, labels = real_optimize(fam, prot)
    inputs = inputs_for(seed, maxlen, nrand)
    viol = []
    # (1) the real optimizer's output means the same as the original, for the whole family
    shards = 4 if tier == "quick" else 10
    size = (len(fam) + shards - 1) // shards
    jobs = [(i, min(i + size, len(fam))) for i in range(0, len(fam), size)]

    def one(job):
        a, b = job
        return tlc(fam[a:b], obs[a:b], flats[a:b], labels[a:b], prot[a:b], inputs, False, workers=max(1, 14 // len(jobs)))
    res = P.parallel(one, jobs, workers=len(jobs))
    ndiff, states = 0, 0
    for (a, b), r in zip(jobs, res):
        states += r["states"]
        if r.get("violated"):
            raise P.Inconclusive("Optimize.tla: %s violated without any rewriting" % r["violated"])
        for (ci, er, k) in r["obsdiff"]:
            ndiff += 1
            if len(viol) < 10 and not any(v[2] == a + ci - 1 for v in viol):
                g = fam[a + ci - 1]
                rec = dict(property="C09", kind="optimizer-output-meaning", grammar=g.render_rules(), group=g.to_case(), protected=prot[a + ci - 1],
                           entry_rule=er, input=inputs[k - 1], input_text=bytes(inputs[k - 1]).decode(errors="replace"))
                rd = os.path.join(P.VERIF, "replays", "C09")
                os.makedirs(rd, exist_ok=True)
                path = os.path.join(rd, "optsem_%s.json" % hashlib.sha1(json.dumps(rec, sort_keys=True).encode()).hexdigest()[:10])
                with open(path, "w") as f:
                    json.dump(rec, f, indent=1)
                viol.append((path, "the grammar ast.Optimize produced does not mean the same as the original (entry rule %d)" % er, a + ci - 1))
    cov = dict(grammars=len(fam), inputs=len(inputs), evaluations=states, differing_evaluations=ndiff)
    # (2) every order of the rewrites on the small grammars; is the real result one of the reachable grammars?
    idx = [i for i, g in enumerate(fam) if small(g)]
    random.Random(seed).shuffle(idx)
    idx = idx[:nsmall] + list(range(len(fam) - len(wit), len(fam)))
    pick = lambda xs: [xs[i] for i in idx]
    r = tlc(pick(fam), pick(obs), pick(flats), pick(labels), pick(prot), inputs, True, workers=12)
    cov.update(rewriting=dict(grammars=len(idx), states=r["states"], transitions=r["generated"] if "generated" in r else r["transitions"],
                              real_result_reachable=len(r["reached"]), violated=r.get("violated")))
    if r.get("violated"):
        run.notes.append("Optimize.tla: %s is violated in some order of the rewrites (a model counterexample alone is never a verdict)" % r["violated"])
    elif len(r["reached"]) < len(idx):
        missing = [fam[idx[i - 1]].gi for i in range(1, len(idx) + 1) if i not in r["reached"]]
        run.notes.append("model drift: the grammar ast.Optimize produced is not a reachable state of Optimize.tla for %d of %d small grammars (first: group %s); no verdict depends on it" % (len(missing), len(idx), missing[:3]))
    # vacuity: each deviation switch must produce a counterexample
    vac = {}
    for sw in ("S", "M", "L"):
        rv = tlc(pick(fam), pick(obs), pick(flats), pick(labels), pick(prot), inputs, True, sw, workers=8, timeout=900)
        vac[sw] = rv.get("violated")
    cov["deviation_switches"] = vac
    if not all(v == "SameMeaning" for v in vac.values()):
        run.notes.append("Optimize.tla: a deviation switch produced no counterexample on this family (vacuity): %s" % vac)
    run.cov["optimizer_model"] = cov
    return [(p_, w) for (p_, w, _) in viol]
