"""Abstract grammars as node tables (the case language shared by TLC and the Go runner),
their label scoping (what the documentation calls "the same scope"), and their rendering
to concrete pigeon syntax.  See DESIGN.md 2.3 and Appendix B."""
import json

FIELDS = dict(k="", kids=[], s=[], rng=[], ucl=[], ic=False, inv=False, lab="", labs=[], blk=0,
              rule=0, args=[], want=[], key="x", op="", arg=0, g=0, err=False, xl=False)


def PCT(n):
    """user code is copied into the generated file verbatim: a third of the blocks carry text that a printf-style
    re-formatting, a template expansion or an escaping step would change"""
    return " /* 100%d %s %% {{.}} \\n */" if n["blk"] % 3 == 0 else ""


def PCTX(n):
    """... and, in code rather than in a comment, a remainder operator (a stray printf verb makes the file unparsable)"""
    return "+0*(9%4)" if n["blk"] % 3 == 0 else ""


class Gram:
    """One test group: rules[i] is the root node id (1-based) of rule i+1."""

    def __init__(self, gi):
        self.gi = gi
        self.nodes = []
        self.rules = []
        self.disp = []      # display name per rule ("" = none)
        self.lr = []        # per rule: k>0 = first k alternatives are the recursive ones (C08 form)
        self.nblk = 0
        self.labctr = 0
        self.tags = set()   # features: "state","lr","throw","blocks", ...
        self.maydiverge = False
        self.labpool, self.labrng = None, None
        self.idents = None  # custom rule identifiers (C04); default G<gi>_R<i>
        self.recv = "c"     # receiver name used inside the code blocks

    # ---- construction -------------------------------------------------
    def mk(self, **kw):
        n = {k: (list(v) if isinstance(v, list) else v) for k, v in FIELDS.items()}
        n.update(kw)
        self.nodes.append(n)
        return len(self.nodes)

    def N(self, e):
        return self.nodes[e - 1]

    def blk(self):
        self.nblk += 1
        return self.nblk + 1000 * self.gi

    def newlab(self):
        self.labctr += 1
        if self.labpool and self.labrng.random() < 0.5:   # the same name in different scopes (shadowing)
            return self.labrng.choice(self.labpool)
        return "l%d" % self.labctr

    def lit(self, runes, ic=False):
        return self.mk(k="lit", s=list(runes), ic=ic, want=lit_want(runes, ic))

    def cls(self, chars=(), rng=(), inv=False, ic=False):
        txt = cls_text(chars, rng, inv, ic)
        return self.mk(k="cls", s=list(chars), rng=list(rng), inv=inv, ic=ic, want=list(txt.encode()))

    def any(self):
        return self.mk(k="any", want=[46])

    def seq(self, kids):
        kids = list(kids)
        if len(kids) == 1:
            return kids[0]
        return self.mk(k="seq", kids=kids)

    def choice(self, kids):
        kids = list(kids)
        if len(kids) == 1:        # the front-end has no choice (or sequence) of one element: "(e)" is e
            return kids[0]
        return self.mk(k="choice", kids=kids)

    def un(self, k, kid):
        return self.mk(k=k, kids=[kid])

    def label(self, kid, lab=None):
        return self.mk(k="label", lab=lab or self.newlab(), kids=[kid])

    def action(self, kid, err=False, g=0):
        self.tags.add("blocks")
        return self.mk(k="action", blk=self.blk(), kids=[kid], err=err, g=g)

    def state(self, op, key="x", arg=1, err=False, g=0):
        self.tags.add("blocks")
        self.tags.add("state")
        return self.mk(k="state", blk=self.blk(), op=op, key=key, arg=arg, err=err, g=g)

    def pred(self, neg, op, key="x", arg=0, err=False, g=0):
        self.tags.add("blocks")
        if op == "eq":
            self.tags.add("statepred")
        return self.mk(k="notcode" if neg else "andcode", blk=self.blk(), op=op, key=key, arg=arg, err=err, g=g)

    def ref(self, rule):
        return self.mk(k="ref", rule=rule)

    def throw(self, lab):
        self.tags.add("throw")
        return self.mk(k="throw", lab=lab)

    def recover(self, e, rec, labs):
        self.tags.add("throw")
        return self.mk(k="recover", kids=[e, rec], labs=list(labs))

    # ---- names ----------------------------------------------------------
    def rname(self, i):
        if self.idents:
            return self.idents[i - 1]
        return "G%d_R%d" % (self.gi, i)

    def sname(self):
        return "G%d_S" % self.gi

    def errname(self, i):
        d = self.disp[i - 1] if i - 1 < len(self.disp) else ""
        if d and d[0] in "\"'`":
            return d                    # a complete spelling (the display name IS the source text of the string literal)
        return ('"%s"' % d) if d else self.rname(i)

    # ---- scoping (builder.writeExprCode / the documentation's "same scope") ----
    def compute_args(self):
        N = self.N

        def walk(e, stack):
            n = N(e)
            k = n["k"]
            if k == "action":
                walk(n["kids"][0], stack)
                n["args"] = list(stack[-1])
            elif k in ("state", "andcode", "notcode"):
                n["args"] = list(stack[-1])
            elif k == "label":
                if n["lab"] in stack[-1] and not getattr(self, "dup_labels", False):   # labels of one scope are distinct (precondition of C04); other scopes may reuse a name
                    self.labctr += 1
                    n["lab"] = "u%d" % self.labctr
                stack[-1].append(n["lab"])
                stack.append([])
                walk(n["kids"][0], stack)
                stack.pop()
            elif k in ("and", "not", "star", "plus", "opt"):
                stack.append([])
                walk(n["kids"][0], stack)
                stack.pop()
            elif k == "choice":
                for c in n["kids"]:
                    stack.append([])
                    walk(c, stack)
                    stack.pop()
            elif k == "recover":
                stack.append([])
                walk(n["kids"][0], stack)
                walk(n["kids"][1], stack)
                stack.pop()
            elif k == "seq":
                for c in n["kids"]:
                    walk(c, stack)
        for root in self.rules:
            walk(root, [[]])
        # xl: evaluating the node binds a label into the scope it is evaluated in (used by R only to
        # recognise the shape of known finding F2, never for a verdict)
        def xl(e):
            n = N(e)
            k = n["k"]
            if k == "label":
                r = True
                xl(n["kids"][0])
            elif k in ("seq", "recover"):
                r = any([xl(c) for c in n["kids"]])
            elif k == "action":
                r = xl(n["kids"][0])
            else:
                for c in n["kids"]:
                    xl(c)
                r = False
            n["xl"] = r
            return r
        for root in self.rules:
            xl(root)

    # ---- static analysis used only to choose safe run options -----------
    def nullable_rules(self):
        nul = [False] * len(self.rules)

        def nl(e):
            n = self.N(e)
            k = n["k"]
            if k == "lit":
                return len(n["s"]) == 0
            if k in ("cls", "any"):
                return False
            if k in ("star", "opt", "and", "not", "state", "andcode", "notcode", "throw"):
                return True   # throw: conservatively (a recovery expression may be nullable)
            if k == "plus" or k == "label" or k == "action":
                return nl(n["kids"][0])
            if k == "recover":
                return nl(n["kids"][0]) or nl(n["kids"][1])
            if k == "seq":
                return all(nl(c) for c in n["kids"])
            if k == "choice":
                return any(nl(c) for c in n["kids"])
            if k == "ref":
                return nul[n["rule"] - 1]
        ch = True
        while ch:
            ch = False
            for i, r in enumerate(self.rules):
                v = nl(r)
                if v and not nul[i]:
                    nul[i] = True
                    ch = True
        self._nl = nl
        return nul

    def may_diverge(self):
        self.nullable_rules()
        return any(n["k"] in ("star", "plus") and self._nl(n["kids"][0]) for n in self.nodes)

    # ---- rendering --------------------------------------------------------
    LEVEL = {"recover": -1, "choice": 0, "action": 1, "seq": 2, "label": 3, "and": 4, "not": 4,
             "star": 5, "plus": 5, "opt": 5, "throw": 3}

    def render(self, e, ctx=-1):
        n = self.N(e)
        k = n["k"]

        def par(s):
            return "(" + s + ")" if self.LEVEL.get(k, 6) < ctx else s
        a = ", ".join(n["args"])
        if k == "lit":
            return lit_text(n["s"], n["ic"])
        if k == "cls":
            return bytes(n["want"]).decode()
        if k == "any":
            return "."
        if k == "ref":
            return self.rname(n["rule"])
        if k == "seq":
            return par(" ".join(self.render(c, 3) for c in n["kids"]))
        if k == "choice":
            return par(" / ".join(self.render(c, 1) for c in n["kids"]))
        if k == "action":
            return par(self.render(n["kids"][0], 2) + " { return act(%s, %d%s, []any{%s}) }" % (self.recv, n["blk"], PCTX(n), a + PCT(n)))
        if k == "state":
            return "#{ return st(%s, %d%s, []any{%s}) }" % (self.recv, n["blk"], PCTX(n), a + PCT(n))
        if k in ("andcode", "notcode"):
            return ("&" if k == "andcode" else "!") + "{ return pr(%s, %d%s, []any{%s}) }" % (self.recv, n["blk"], PCTX(n), a + PCT(n))
        if k == "label":
            return par(n["lab"] + ":" + self.render(n["kids"][0], 4))
        if k in ("and", "not"):
            return par(("&" if k == "and" else "!") + self.render(n["kids"][0], 5))
        if k in ("star", "plus", "opt"):
            return par(self.render(n["kids"][0], 6) + {"star": "*", "plus": "+", "opt": "?"}[k])
        if k == "throw":
            return par("%{" + n["lab"] + "}")
        if k == "recover":
            # e //{A} r1 //{B} r2 is (e //{A} r1) //{B} r2: half of the groups spell a left-nested operator as a chain
            chain = self.N(n["kids"][0])["k"] == "recover" and self.gi % 2 == 0
            return par(self.render(n["kids"][0], -1 if chain else 0) + " //{" + ", ".join(n["labs"]) + "} " + self.render(n["kids"][1], 0))
        raise ValueError(k)

    def render_rules(self):
        out = ["%s <- v:%s { return top(%s, v) }\n" % (self.sname(), self.rname(1), self.recv)]
        for i, root in enumerate(self.rules):
            d = self.disp[i] if i < len(self.disp) else ""
            out.append("%s%s <- %s\n" % (self.rname(i + 1), ((" " + d) if d[0] in "\"'`" else ' "%s"' % d) if d else "", self.render(root, -1)))
        ol = getattr(self, "oneline", None)
        if ol is None:
            ol = self.gi % 7 == 3                   # every seventh group of every family, unless a check decides itself
        if ol:                                      # all rules of the group on ONE source line, separated by semicolons
            return " ; ".join(x.rstrip("\n") for x in out) + "\n"
        return "".join(out)

    def to_case(self):
        names = [self.errname(i + 1) for i in range(len(self.rules))]
        lr = list(self.lr) + [0] * (len(self.rules) - len(self.lr))
        return dict(gi=self.gi, nodes=self.nodes, rules=self.rules, names=names, lr=lr,
                    idents=[self.rname(i + 1) for i in range(len(self.rules))],
                    lrflags=getattr(self, "lrflags", None) or [])

    def text(self):
        return self.render_rules()


# ---- concrete spellings --------------------------------------------------
def go_quote_rune(r, q='"'):
    if r == ord(q) or r == 92:
        return "\\" + chr(r)
    if r == 10:
        return "\\n"
    if r == 9:
        return "\\t"
    if r == 13:
        return "\\r"
    if r < 32 or r == 127:
        return "\\x%02x" % r
    if r == 0xFFFD:
        return chr(r)
    return chr(r)


def lit_want(runes, ic):
    """strconv.Quote(val) + "i"? as bytes (model alphabet: printable runes and \\n,\\t)"""
    s = '"' + "".join(go_quote_rune(r) for r in runes) + '"' + ("i" if ic else "")
    return list(s.encode())


def lit_text(runes, ic):
    return '"' + "".join(go_quote_rune(r) for r in runes) + '"' + ("i" if ic else "")


def cls_char(r):
    if r in (93, 92, 94, 45):   # ] \ ^ - : only "\]" and "\\" have escapes of their own
        return {93: "\\]", 92: "\\\\", 94: "\\x5e", 45: "\\x2d"}[r]
    if r == 10:
        return "\\n"
    if r < 32 or r == 127:
        return "\\x%02x" % r
    return chr(r)


def cls_text(chars, rng, inv, ic):
    s = "[" + ("^" if inv else "")
    for i in range(0, len(rng), 2):
        s += cls_char(rng[i]) + "-" + cls_char(rng[i + 1])
    s += "".join(cls_char(c) for c in chars)
    return s + "]" + ("i" if ic else "")


def pack_text(groups, extra_init=""):
    head = "{\npackage main\n" + extra_init + "\n}\n\n"
    return head + "\n".join(g.text() for g in groups)


def dump_groups(groups, path):
    with open(path, "w") as f:
        for g in groups:
            f.write(json.dumps(g.to_case()) + "\n")
