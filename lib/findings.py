"""Known findings: which are active, and witness cases that re-confirm each on every run."""
import json, os
from peg import Gram
import families as F

PATH = os.path.join(os.path.dirname(os.path.dirname(os.path.abspath(__file__))), "known_findings.json")


def load():
    return json.load(open(PATH))["findings"]


def active(pid=None):
    return [f for f in load() if f["kind"] == "known" and (pid is None or f["property"] == pid or pid in f.get("also", []))]


def what(fid):
    for f in load():
        if f["id"] == fid:
            return f["what"]
    return fid


# ---- witnesses: (group builder, inputs, option overrides, accepted divergence labels) -------------
def w_F1(gi):
    g = Gram(gi)
    a = g.action(g.un("plus", g.lit([F.A])))
    g_s = g.seq([g.pred(False, "true"), g.ref(2), g.pred(False, "true"), g.state("set", "x", 1), g.lit([F.B]), g.pred(True, "false")])
    g.rules = [g_s, a]
    g.disp = ["", ""]
    g.compute_args()
    return g, [[F.A, F.A, F.B]], {}, ("event-pos", "event-text")


WITNESS = {"F1": w_F1}


def w_F2(gi):
    g = Gram(gi)
    X, Y, Z = 120, 121, 122
    a = g.action(g.seq([g.un("star", g.lit([X])), g.label(g.lit([Y]))]))
    s = g.choice([g.seq([g.ref(2), g.lit([Z])]), g.seq([g.lit([X]), g.ref(2)])])
    g.rules = [s, a]
    g.disp = ["", ""]
    g.compute_args()
    return g, [[X, X, Y]], dict(memo=True), ("val", "event-notallowed")


def w_F3(gi):
    g = Gram(gi)
    s = g.seq([g.un("star", g.un("opt", g.lit([F.A]))), g.lit([F.B])])
    g.rules = [s]
    g.disp = [""]
    g.compute_args()
    return g, [[F.A, F.B]], dict(memo=True, maxexpr=1000), ("timeout", "oom")


WITNESS.update({"F2": w_F2, "F3": w_F3})


def w_F21(gi):
    g = Gram(gi)
    g.tags.add("lr")
    NN, MINUS, X = 110, 45, 120
    d_body = g.action(g.lit([NN]), err=True)
    rec = g.seq([g.label(g.ref(2)), g.lit([MINUS]), g.label(g.ref(3)), g.un("not", g.lit([X]))])
    s_body = g.seq([g.label(g.ref(2)), g.lit([MINUS]), g.label(g.ref(3)), g.lit([X])])
    g.rules = [s_body, g.choice([rec, g.ref(3)]), d_body]
    g.lr = [0, 1, 0]
    g.disp = ["", "", ""]
    g.compute_args()
    return g, [[NN, MINUS, NN, X]], dict(memo=True), ("nerrs", "err", "store")


WITNESS.update({"F21": w_F21})


def w_F34(gi):
    """S <- l:B .* ; A <- B '+' / 'n' ; B <- A '*' / '('   entered through B, which is not pigeon's leader (A sorts first)"""
    g = Gram(gi)
    g.tags.add("lr")
    NN, PLUS, STAR_, LP = 110, 43, 42, 40
    s_body = g.action(g.seq([g.label(g.ref(3)), g.un("star", g.any())]))
    a_body = g.choice([g.action(g.seq([g.label(g.ref(3)), g.lit([PLUS])])), g.action(g.lit([NN]))])
    b_body = g.choice([g.action(g.seq([g.label(g.ref(2)), g.lit([STAR_])])), g.action(g.lit([LP]))])
    g.rules = [s_body, a_body, b_body]
    g.lr = [0, 0, 1]            # the meaning: B is the rule that iterates (it is entered first); A is evaluated inside it
    g.disp = ["", "", ""]
    g.compute_args()
    return g, [[LP, PLUS, STAR_, PLUS], [LP, PLUS, STAR_, PLUS, STAR_, PLUS]], {}, ("val", "end", "ok", "event-missing", "event-notallowed", "nerrs", "store")


def w_F35(gi):
    """S <- (l:E 'x' / l:E '*') ; E <- l:E '+' T #{x++} / T #{x++} ; T <- 'n'   on n+n*: the second E is served from the memo table"""
    g = Gram(gi)
    g.tags.add("lr")
    g.tags.add("state")
    NN, PLUS, STAR_, X = 110, 43, 42, 120
    s_body = g.action(g.choice([g.seq([g.label(g.ref(2)), g.lit([X])]), g.seq([g.label(g.ref(2)), g.lit([STAR_])])]))
    e_body = g.choice([g.seq([g.label(g.ref(2)), g.lit([PLUS]), g.ref(3), g.state("inc", "x", 1)]), g.seq([g.ref(3), g.state("inc", "x", 1)])])
    g.rules = [s_body, e_body, g.lit([NN])]
    g.lr = [0, 1, 0]
    g.disp = ["", "", ""]
    g.compute_args()
    return g, [[NN, PLUS, NN, STAR_]], {}, ("store", "gstore", "event-missing", "nerrs", "err", "val")


WITNESS.update({"F34": w_F34, "F35": w_F35})
