"""Driver: ./check <ID> [--tier quick|thorough] [--replay file].  exit 0 = property held on everything
explored; 1 = VIOLATION lines printed; 2 = inconclusive (machinery failure, never a verdict)."""
import argparse, os, sys, traceback
sys.path.insert(0, os.path.dirname(os.path.abspath(__file__)))
import pipeline as P


def main():
    ap = argparse.ArgumentParser()
    ap.add_argument("pid")
    ap.add_argument("--tier", default=os.environ.get("VERIF_TIER", "quick"))
    ap.add_argument("--replay")
    a = ap.parse_args()
    seed = int(os.environ.get("VERIF_SEED", "1") or 1)
    tier = a.tier if a.tier in ("quick", "thorough") else "quick"
    import props
    fn = getattr(props, "check_" + a.pid, None)
    if fn is None:
        print("no such check:", a.pid)
        return 2
    try:
        if a.replay:
            return replay(a.pid, a.replay)
        return fn(tier, seed, a.replay)
    except P.Inconclusive as e:
        print("INCONCLUSIVE property=%s: %s" % (a.pid, e))
        return 2
    except Exception:
        traceback.print_exc()
        print("INCONCLUSIVE property=%s: internal error" % a.pid)
        return 2


def replay(pid, path):
    """re-run exactly the case of a replay file against the current working tree"""
    import json, subprocess, tempfile
    from peg import Gram, dump_groups
    from rt import Run
    rec = json.load(open(path))
    if "group" in rec and "divergence" in rec:          # a T1 case: grammar group, flags, input, options
        gc = rec["group"]
        g = Gram(1)
        g.nodes, g.rules, g.lr = gc["nodes"], gc["rules"], gc["lr"]
        g.idents = gc.get("idents")
        old = "G%d_" % gc["gi"]
        g.disp = [""] * len(g.rules)
        for i, nm in enumerate(gc["names"]):
            if nm.startswith('"'):
                g.disp[i] = nm.strip('"')
        if g.idents and all(x.startswith(old) for x in g.idents):
            g.idents = None
        for n in g.nodes:
            if n["k"] == "state":
                g.tags.add("state")
        if any(gc["lr"]):
            g.tags.add("lr")
        g.maydiverge = False
        # block ids are tied to the original group number: keep them (they are plain integers in the grammar text)
        run = Run(pid, "quick", 0)
        from rt import opt as _opt
        opts = [_opt(**rec["options"])]          # options recorded before a field was added get its default
        div, tot = run.execute([g], [rec["input"]], opts, lambda gg: [(0, 0)], [[f for f in rec["flags"] if f != "-support-left-recursion" and not f.startswith("G") and f != "-alternate-entrypoints"]],
                               cmp=dict(ctx=(pid == "C02"), norm=("-optimize-grammar" in rec["flags"]), errs=("-optimize-grammar" not in rec["flags"])),
                               lower=rec.get("lower"), uclass=rec.get("uclass"))
        print("replayed 1 case: %d divergence(s) %s" % (len(div), [d["df"] for d in div]))
        if div:
            print("VIOLATION property=%s replay=%s" % (pid, path))
            return 1
        return 0
    if rec.get("kind") == "optimizer-output-meaning":
        import optdesign
        d = optdesign.replay(rec)
        print("replayed 1 case: %d differing evaluation(s)" % len(d))
        if d:
            print("VIOLATION property=%s replay=%s" % (pid, path))
            return 1
        return 0
    if pid == "C13" and "text" in rec:
        import props
        d = tempfile.mkdtemp(prefix="replay-", dir=P.workdir())
        pth = os.path.join(d, "t.peg")
        open(pth, "wb").write(bytes(rec["text"]))
        p = subprocess.run([P.build_pigeon()] + rec["flags"] + [pth], stdout=subprocess.PIPE, stderr=subprocess.PIPE, env=P.ENV, timeout=120)
        err = p.stderr.decode(errors="replace")
        print("exit status %d, diagnostic class %s" % (p.returncode, props.classify_stderr(err)))
        print(err[-600:])
        bad = props.classify_stderr(err) == "panic" and "-no-recover" not in rec["flags"]
        if bad:
            print("VIOLATION property=C13 replay=%s" % path)
        return 1 if bad else 0
    print("replay files of %s describe the failing artifact; re-run ./check %s to re-evaluate it on the current tree" % (pid, pid))
    print(json.dumps({k: rec[k] for k in list(rec)[:6]}, indent=1)[:1500])
    return 2


if __name__ == "__main__":
    sys.exit(main())
