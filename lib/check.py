"""Driver: ./check <ID> [--tier quick|thorough] [--replay file].  exit 0 = property held on everything
explored; 1 = VIOLATION lines printed; 2 = inconclusive (machinery failure, never a verdict)."""
import argparse, os, sys, traceback
sys.path.insert(0, os.path.dirname(os.path.abspath(__file__)))
import pipeline as P


def main():
    ap = argparse.ArgumentParser()
    ap.add_argument("pid")
    ap.add_argument("--tier", default=os.environ.get("VERIF_TIER", "quick"))
    ap.add_argument("--replay")
    a = ap.parse_args()
    seed = int(os.environ.get("VERIF_SEED", "1") or 1)
    tier = a.tier if a.tier in ("quick", "thorough") else "quick"
    import props
    fn = getattr(props, "check_" + a.pid, None)
    if fn is None:
        print("no such check:", a.pid)
        return 2
    try:
        return fn(tier, seed, a.replay)
    except P.Inconclusive as e:
        print("INCONCLUSIVE property=%s: %s" % (a.pid, e))
        return 2
    except Exception:
        traceback.print_exc()
        print("INCONCLUSIVE property=%s: internal error" % a.pid)
        return 2


if __name__ == "__main__":
    sys.exit(main())
