"""Families of abstract grammars: exhaustive (bounded) and random (seeded)."""
import itertools, random
from peg import Gram

A, B, UA, NL = 97, 98, 65, 10
EACUTE, EURO, FFFD = 0xE9, 0x20AC, 0xFFFD

# ---- shape trees -> node tables ---------------------------------------------------------
LEAVES_FULL = [("lit", (A,), False), ("lit", (A, B), False), ("lit", (UA,), True), ("lit", (), False),
               ("cls", (A, B), (), False, False), ("cls", (A,), (), True, False), ("cls", (), (A, B), False, True), ("any",)]
LEAVES_SMALL = [("lit", (A,), False), ("lit", (), False), ("cls", (A,), (), True, False), ("any",)]
LEAVES_UTF8 = [("lit", (EACUTE,), False), ("lit", (A, EURO), False), ("cls", (EACUTE, NL), (), False, False),
               ("cls", (A,), (), True, False), ("any",), ("lit", (NL,), False)]


PRED_LEAVES = [("pred", False, "true"), ("pred", True, "true"), ("pred", False, "false")]
STATE_LEAVES = [("state", "set", "x", 1), ("state", "inc", "x", 1), ("state", "app", "cl", 2), ("pred", False, "eq", "x", 1)]
RUNES = {"a": [A], "b": [B], "A": [UA], "nl": [NL], "eacute": list("\u00e9".encode()), "euro": list("\u20ac".encode())}


def build(g, t):
    k = t[0]
    if k == "lit":
        return g.lit(t[1], t[2])
    if k == "cls":
        return g.cls(t[1], t[2], t[3], t[4])
    if k == "any":
        return g.any()
    if k in ("seq", "choice"):
        kids = [build(g, c) for c in t[1:]]
        return g.seq(kids) if k == "seq" else g.choice(kids)
    if k in ("star", "plus", "opt", "and", "not"):
        return g.un(k, build(g, t[1]))
    if k == "label":
        return g.label(build(g, t[1]))
    if k == "action":
        return g.action(build(g, t[1]))
    if k == "lact":      # labelled expression under an action: the block receives the label
        return g.action(g.seq([g.label(build(g, t[1])), build(g, t[2])]))
    if k == "ref":
        return g.ref(t[1])
    if k == "pred":       # ("pred", negated, op)
        return g.pred(t[1], t[2], key=(t[3] if len(t) > 3 else "x"), arg=(t[4] if len(t) > 4 else 0))
    if k == "state":      # ("state", op, key, arg)
        return g.state(t[1], t[2], t[3])
    raise ValueError(k)


def compose(subs, leaves, ternary=False):
    """all expressions with one more operator level over `subs`"""
    out = list(leaves)
    for op in ("star", "plus", "opt", "and", "not", "label", "action"):
        out += [(op, s) for s in subs]
    for a, b in itertools.product(subs, repeat=2):
        out.append(("seq", a, b))
        out.append(("choice", a, b))
    if ternary:
        for a, b, c in itertools.product(subs, repeat=3):
            out.append(("seq", a, b, c))
            out.append(("choice", a, b, c))
    return out


def exhaustive(depth, leaves, ternary=False):
    cur = list(leaves)
    for _ in range(depth):
        cur = compose(cur, leaves, ternary)
    return cur


def groups_from_trees(trees, gi0=1, wrap_action=True):
    """one single-rule group per tree"""
    out = []
    for i, t in enumerate(trees):
        g = Gram(gi0 + i)
        root = build(g, t)
        g.rules = [root]
        g.disp = [""]
        g.compute_args()
        g.maydiverge = g.may_diverge()
        out.append(g)
    return out


def all_inputs(alphabet, maxlen):
    out = []
    for L in range(maxlen + 1):
        for t in itertools.product(alphabet, repeat=L):
            out.append([b for x in t for b in (x if isinstance(x, (list, tuple)) else [x])])
    return out


def utf8(r):
    return list(chr(r).encode())


# ---- random groups ----------------------------------------------------------------------
class RandCfg:
    def __init__(self, **kw):
        self.depth = 3
        self.maxrules = 3
        self.leaves = LEAVES_FULL
        self.blocks = True        # actions
        self.state = False        # state blocks + state predicates
        self.preds = False        # code predicates true/false
        self.errs = 0.0           # probability that a block returns an error (static)
        self.cloner = False
        self.gstore = False
        self.throw = False
        self.disp = True
        self.safe_rep = True      # repetition bodies always consume (no divergence)
        self.labels = True
        self.__dict__.update(kw)


def random_group(rng, gi, cfg):
    g = Gram(gi)
    nr = rng.randint(1, cfg.maxrules)
    roots = [None] * nr
    labs_in_scope = []

    def leaf():
        return build(g, rng.choice(cfg.leaves))

    LABS = ["la", "lb", "lc"]

    def expr(d, refs, handlers, minlab=0):
        if d == 0:
            return leaf()
        kinds = ["leaf", "seq", "seq", "seq", "choice", "choice", "star", "plus", "opt", "and", "not"]
        if cfg.labels:
            kinds += ["label"]
        if cfg.blocks:
            kinds += ["action", "action", "lact"]
        if cfg.state:
            kinds += ["state", "state", "spred"]
        if cfg.preds:
            kinds += ["pred"]
        if refs:
            kinds += ["ref"]
        if cfg.throw:
            kinds += ["recover", "recover"]
            if minlab < 3:
                kinds += ["throw", "throw"]
        k = rng.choice(kinds)
        if k == "leaf":
            return leaf()
        if k in ("seq", "choice"):
            return (g.seq if k == "seq" else g.choice)([expr(d - 1, refs, handlers, minlab) for _ in range(rng.randint(2, 3))])
        if k in ("star", "plus"):
            body = expr(d - 1, refs, handlers, minlab)
            if cfg.safe_rep:
                body = g.seq([g.cls((A, B), (), False, False), body])
            return g.un(k, body)
        if k in ("opt", "and", "not"):
            return g.un(k, expr(d - 1, refs, handlers, minlab))
        if k == "label":
            return g.label(expr(d - 1, refs, handlers, minlab))
        if k == "action":
            return g.action(expr(d - 1, refs, handlers, minlab), err=rng.random() < cfg.errs,
                            g=(1 if cfg.gstore and rng.random() < 0.3 else 0))
        if k == "lact":
            return g.action(g.seq([g.label(expr(d - 1, refs, handlers, minlab)), expr(d - 1, refs, handlers, minlab)]), err=rng.random() < cfg.errs)
        if k == "state":
            ops = ["set", "inc"] + (["app", "app"] if cfg.cloner else [])
            op = rng.choice(ops)
            return g.state(op, key=("cl" if op == "app" else rng.choice(["x", "y"])), arg=rng.randint(1, 3),
                           err=rng.random() < cfg.errs, g=(1 if cfg.gstore and rng.random() < 0.3 else 0))
        if k == "spred":
            key = rng.choice(["x", "y"] + (["cl"] if cfg.cloner else []))
            return g.pred(rng.random() < 0.5, "eq", key=key, arg=rng.randint(0, 3), err=rng.random() < cfg.errs)
        if k == "pred":
            op = rng.choice(["true", "false"] + (["glt"] if cfg.gstore else []))
            return g.pred(rng.random() < 0.5, op, arg=rng.randint(0, 3), err=rng.random() < cfg.errs,
                          g=(1 if cfg.gstore and rng.random() < 0.3 else 0))
        if k == "ref":
            return g.ref(rng.choice(refs))
        if k == "recover":
            labs = rng.sample(LABS, rng.randint(1, 2))
            e = expr(d - 1, refs, handlers + [labs], minlab)
            # handlers stay in force while a recovery expression runs: it may throw only labels greater than
            # every label of its own operator and calls no rule, so no family member recurses without bound
            rec = expr(max(d - 2, 0), [], handlers, max(minlab, max(LABS.index(l) for l in labs) + 1))
            return g.recover(e, rec, labs)
        if k == "throw":
            cand = [l for l in sorted({l for h in handlers for l in h}) if LABS.index(l) >= minlab]
            if not cand or rng.random() < 0.15:
                cand = LABS[minlab:]
            return g.throw(rng.choice(cand))
        raise ValueError(k)

    for ri in range(nr, 0, -1):      # later rules first; references only to later rules: no recursion
        roots[ri - 1] = expr(cfg.depth if ri == 1 else cfg.depth - 1, list(range(ri + 1, nr + 1)), [])
    g.rules = roots
    g.disp = [("d%d" % (i + 1)) if cfg.disp and (gi + i) % 3 == 0 else "" for i in range(nr)]
    g.compute_args()
    g.maydiverge = g.may_diverge()
    return g


def random_groups(seed, n, cfg, gi0=1):
    rng = random.Random(seed)
    return [random_group(rng, gi0 + i, cfg) for i in range(n)]
