"""Families of abstract grammars: exhaustive (bounded) and random (seeded)."""
import itertools, random
from peg import Gram

A, B, UA, NL = 97, 98, 65, 10
EACUTE, EURO, FFFD = 0xE9, 0x20AC, 0xFFFD
RN, RNL, KELVIN = 0x2163, 0x2173, 0x212A      # cased runes that are not letters (Roman numeral four, Nl) / whose lower case is ASCII
FOLD_PAIRS = [[201, 233], [0x2163, 0x2173], [0x2164, 0x2174], [0x2165, 0x2175], [0x2166, 0x2176], [0x212A, 107]]
LEAVES_FOLD = [("lit", (RN,), True), ("lit", (RNL,), True), ("lit", (A, RN), True), ("lit", (RN,), False), ("cls", (RN,), (), False, True),
               ("cls", (), (RN, RN + 3), False, True), ("cls", (RNL,), (), True, True), ("lit", (107,), True), ("cls", (KELVIN,), (), False, True),
               ("lit", (0xC9,), True), ("cls", (0xE9,), (), False, True)]

# ---- shape trees -> node tables ---------------------------------------------------------
LEAVES_FULL = [("lit", (A,), False), ("lit", (A, B), False), ("lit", (UA,), True), ("lit", (), False),
               ("cls", (A, B), (), False, False), ("cls", (A,), (), True, False), ("cls", (), (A, B), False, True), ("any",)]
LEAVES_SMALL = [("lit", (A,), False), ("lit", (), False), ("cls", (A,), (), True, False), ("any",)]
LEAVES_UTF8 = [("lit", (EACUTE,), False), ("lit", (A, EURO), False), ("cls", (EACUTE, NL), (), False, False),
               ("cls", (A,), (), True, False), ("any",), ("lit", (NL,), False), ("lit", (A, NL, A), False), ("lit", (A, NL), False)]


PRED_LEAVES = [("pred", False, "true"), ("pred", True, "true"), ("pred", False, "false")]
STATE_LEAVES = [("state", "set", "x", 1), ("state", "inc", "x", 1), ("state", "app", "cl", 2), ("pred", False, "eq", "x", 1), ("state", "del", "x", 0), ("state", "set", "y", 2)]
RUNES = {"a": [A], "b": [B], "A": [UA], "nl": [NL], "eacute": list("\u00e9".encode()), "euro": list("\u20ac".encode())}


def build(g, t):
    k = t[0]
    if k == "lit":
        return g.lit(t[1], t[2])
    if k == "cls":
        return g.cls(t[1], t[2], t[3], t[4])
    if k == "any":
        return g.any()
    if k in ("seq", "choice"):
        kids = [build(g, c) for c in t[1:]]
        return g.seq(kids) if k == "seq" else g.choice(kids)
    if k in ("star", "plus", "opt", "and", "not"):
        return g.un(k, build(g, t[1]))
    if k == "label":
        return g.label(build(g, t[1]))
    if k == "action":
        return g.action(build(g, t[1]))
    if k == "lact":      # labelled expression under an action: the block receives the label
        return g.action(g.seq([g.label(build(g, t[1])), build(g, t[2])]))
    if k == "ref":
        return g.ref(t[1])
    if k == "shadow":     # a label directly over an action group whose inner label reuses an outer sibling's name
        inner = g.action(g.seq([g.label(build(g, t[2]), "k"), build(g, t[3])]))
        outer = [g.label(build(g, t[1]), "k"), g.label(inner, "v")]
        if len(t) > 4:
            outer.append(build(g, t[4]))          # a predicate / state block reading the labels afterwards
        return g.action(g.seq(outer))
    if k == "shadowp":    # a predicate (& or !) whose operand binds, at its top level, the name of an outer sibling label
        inner = g.un(t[1], g.seq([g.label(build(g, t[3]), "k"), build(g, t[4])]))
        return g.action(g.seq([g.label(build(g, t[2]), "k"), inner, g.label(build(g, t[5]), "v")]))
    if k == "perr":       # a predicate that returns an error together with its boolean
        return g.pred(t[1], t[2], err=True)
    if k == "pred":       # ("pred", negated, op)
        return g.pred(t[1], t[2], key=(t[3] if len(t) > 3 else "x"), arg=(t[4] if len(t) > 4 else 0))
    if k == "state":      # ("state", op, key, arg)
        return g.state(t[1], t[2], t[3])
    raise ValueError(k)


def compose(subs, leaves, ternary=False):
    """all expressions with one more operator level over `subs`"""
    out = list(leaves)
    for op in ("star", "plus", "opt", "and", "not", "label", "action"):
        out += [(op, s) for s in subs]
    for a, b in itertools.product(subs, repeat=2):
        out.append(("seq", a, b))
        out.append(("choice", a, b))
    if ternary:
        for a, b, c in itertools.product(subs, repeat=3):
            out.append(("seq", a, b, c))
            out.append(("choice", a, b, c))
    return out


def exhaustive(depth, leaves, ternary=False):
    cur = list(leaves)
    for _ in range(depth):
        cur = compose(cur, leaves, ternary)
    return cur


def groups_from_trees(trees, gi0=1, wrap_action=True):
    """one single-rule group per tree"""
    out = []
    for i, t in enumerate(trees):
        g = Gram(gi0 + i)
        root = build(g, t)
        g.rules = [root]
        g.disp = [""]
        g.compute_args()
        g.maydiverge = g.may_diverge()
        out.append(g)
    return out


def all_inputs(alphabet, maxlen):
    out = []
    for L in range(maxlen + 1):
        for t in itertools.product(alphabet, repeat=L):
            out.append([b for x in t for b in (x if isinstance(x, (list, tuple)) else [x])])
    return out


def utf8(r):
    return list(chr(r).encode())


# ---- random groups ----------------------------------------------------------------------
class RandCfg:
    def __init__(self, **kw):
        self.depth = 3
        self.maxrules = 3
        self.leaves = LEAVES_FULL
        self.blocks = True        # actions
        self.state = False        # state blocks + state predicates
        self.preds = False        # code predicates true/false
        self.errs = 0.0           # probability that a block returns an error (static)
        self.cloner = False
        self.gstore = False
        self.throw = False
        self.disp = True
        self.safe_rep = True      # repetition bodies always consume (no divergence)
        self.labels = True
        self.recursive = False    # references to ANY rule (itself and earlier ones included) behind a consuming class: right and mutual recursion
        self.__dict__.update(kw)


def random_group(rng, gi, cfg):
    g = Gram(gi)
    if getattr(cfg, "labpool", None):
        g.labpool, g.labrng = list(cfg.labpool), rng
    nr = rng.randint(1, cfg.maxrules)
    roots = [None] * nr
    labs_in_scope = []

    def leaf():
        return build(g, rng.choice(cfg.leaves))

    LABS = ["la", "lb", "lc"]

    def expr(d, refs, handlers, minlab=0):
        if d == 0:
            return leaf()
        kinds = ["leaf", "seq", "seq", "seq", "choice", "choice", "star", "plus", "opt", "and", "not"]
        if cfg.labels:
            kinds += ["label"]
        if cfg.blocks:
            kinds += ["action", "action", "lact"]
        if cfg.state:
            kinds += ["state", "state", "spred"]
        if cfg.preds:
            kinds += ["pred"]
        if refs:
            kinds += ["ref"]
        if cfg.recursive and refs is not None:
            kinds += ["recref", "recref"]
        if cfg.throw:
            kinds += ["recover", "recover"]
            if minlab < 3:
                kinds += ["throw", "throw"]
        k = rng.choice(kinds)
        if k == "leaf":
            return leaf()
        if k in ("seq", "choice"):
            return (g.seq if k == "seq" else g.choice)([expr(d - 1, refs, handlers, minlab) for _ in range(rng.randint(2, 3))])
        if k in ("star", "plus"):
            body = expr(d - 1, refs, handlers, minlab)
            if cfg.safe_rep:
                body = g.seq([g.cls((A, B), (), False, False), body])
            return g.un(k, body)
        if k in ("opt", "and", "not"):
            return g.un(k, expr(d - 1, refs, handlers, minlab))
        if k == "label":
            return g.label(expr(d - 1, refs, handlers, minlab))
        if k == "action":
            return g.action(expr(d - 1, refs, handlers, minlab), err=rng.random() < cfg.errs,
                            g=(1 if cfg.gstore and rng.random() < 0.3 else 0))
        if k == "lact":
            return g.action(g.seq([g.label(expr(d - 1, refs, handlers, minlab)), expr(d - 1, refs, handlers, minlab)]), err=rng.random() < cfg.errs)
        if k == "state":
            ops = ["set", "inc", "del", "nil"] + (["app", "app"] if cfg.cloner else [])
            op = rng.choice(ops)
            return g.state(op, key=("cl" if op == "app" else rng.choice(["x", "y"])), arg=rng.randint(1, 3),
                           err=rng.random() < cfg.errs, g=(1 if cfg.gstore and rng.random() < 0.3 else 0))
        if k == "spred":
            key = rng.choice(["x", "y"] + (["cl"] if cfg.cloner else []))
            return g.pred(rng.random() < 0.5, "eq", key=key, arg=rng.randint(0, 3), err=rng.random() < cfg.errs)
        if k == "pred":
            op = rng.choice(["true", "false"] + (["glt"] if cfg.gstore else []))
            return g.pred(rng.random() < 0.5, op, arg=rng.randint(0, 3), err=rng.random() < cfg.errs,
                          g=(1 if cfg.gstore and rng.random() < 0.3 else 0))
        if k == "ref":
            return g.ref(rng.choice(refs))
        if k == "recref":
            # one rune is consumed before the rule is entered again: recursion as deep as the input is long, never left recursion
            guard = g.cls((A, B), (), False, False) if rng.random() < 0.7 else g.any()
            tail = [expr(d - 1, refs, handlers, minlab)] if rng.random() < 0.3 else []
            r = g.ref(rng.randint(1, nr))
            return g.seq([guard, g.label(r) if cfg.labels and rng.random() < 0.4 else r] + tail)
        if k == "recover":
            labs = rng.sample(LABS, rng.randint(1, 2))
            e = expr(d - 1, refs, handlers + [labs], minlab)
            # handlers stay in force while a recovery expression runs: it may throw only labels greater than
            # every label of its own operator and calls no rule, so no family member recurses without bound
            rec = expr(max(d - 2, 0), None, handlers, max(minlab, max(LABS.index(l) for l in labs) + 1))
            return g.recover(e, rec, labs)
        if k == "throw":
            cand = [l for l in sorted({l for h in handlers for l in h}) if LABS.index(l) >= minlab]
            if not cand or rng.random() < 0.4:
                cand = LABS[minlab:]
            return g.throw(rng.choice(cand))
        raise ValueError(k)

    for ri in range(nr, 0, -1):      # later rules first; references only to later rules: no recursion
        roots[ri - 1] = expr(cfg.depth if ri == 1 else cfg.depth - 1, list(range(ri + 1, nr + 1)), [])
    g.rules = roots
    # display names: plain ones, and spellings with a back quote, a percent sign, an apostrophe, in single quotes or as a raw string
    odd = ['"d`%d"', "'`'", '`r%d`', '"it\'s %%s"', '"d d"']
    g.disp = [(("d%d" % (i + 1)) if (gi + i) % 2 else odd[(gi + i) // 2 % len(odd)].replace("%d", str(i + 1))) if cfg.disp and (gi + i) % 3 == 0 else "" for i in range(nr)]
    g.compute_args()
    g.maydiverge = g.may_diverge()
    return g


def random_groups(seed, n, cfg, gi0=1):
    rng = random.Random(seed)
    return [random_group(rng, gi0 + i, cfg) for i in range(n)]


# ---- left-recursive grammars of the form of C08 ------------------------------------------------
PLUS, MINUS, STAR_, LP, RP, NN = 43, 45, 42, 40, 41, 110


def lr_group(rng, gi, cfg=None, pure=False):
    """A tower of 1..3 left-recursive rules  A <- A a1 / .. / A ak / b1 / ..  (direct, or through one other
    rule per alternative), operands from a small non-left-recursive expression family; optionally called from a
    non-recursive start rule that parses a further operand after it (so that operands are re-parsed at an offset
    at which a growth attempt was abandoned)."""
    g = Gram(gi)
    g.tags.add("lr")
    if rng.random() < 0.12:
        # abandon-and-retry: the last growth attempt evaluates the shared operand rule D (its blocks run, its errors and
        # state changes must not be retained) and is then abandoned by !'x'; the start rule parses the same operand again
        # at the same offset:  S <- l:E op D 'x' ;  E <- l:E op D !'x' {..} / D ;  D <- 'n' {..}
        opc = rng.choice([PLUS, MINUS, STAR_])
        pre = [g.state("inc", "x", 1)] if (not pure) and rng.random() < 0.5 else []
        d_body = g.action(g.seq(pre + [g.lit([NN])]) if pre else g.lit([NN]), err=rng.random() < 0.4)
        rec = g.seq([g.label(g.ref(2)), g.lit([opc]), g.label(g.ref(3)), g.un("not", g.lit([120]))])
        if rng.random() < 0.7:
            rec = g.action(rec, err=rng.random() < 0.3)
        s_body = g.seq([g.label(g.ref(2)), g.lit([opc]), g.label(g.ref(3)), g.lit([120])])
        if rng.random() < 0.6:
            s_body = g.action(s_body)
        g.rules = [s_body, g.choice([rec, g.ref(3)]), d_body]
        g.lr = [0, 1, 0]
        g.disp = ["", "", ""]
        g.compute_args()
        g.maydiverge = False
        return g
    if rng.random() < 0.08:
        # the rule twice in a row: what its abandoned last growth attempt touched is touched again by the second invocation,
        # in the SAME rule:  S <- l:E m:E ; E <- l:E op 'n' {..} / 'n' {..} / op [^n]
        opc = rng.choice([PLUS, MINUS, STAR_])
        rec = g.seq([g.label(g.ref(2)), g.lit([opc]), g.lit([NN])])
        rec = g.action(rec, err=rng.random() < 0.3) if rng.random() < 0.7 else rec
        e_body = g.choice([rec, g.action(g.lit([NN]), err=rng.random() < 0.3), g.seq([g.lit([opc]), g.cls((NN,), (), True, False)])])
        s_body = g.seq([g.label(g.ref(2)), g.label(g.ref(2))] + ([g.un("not", g.any())] if rng.random() < 0.5 else []))
        g.rules = [g.action(s_body) if rng.random() < 0.5 else s_body, e_body]
        g.lr = [0, 1]
        g.disp = ["", ""]
        g.compute_args()
        g.maydiverge = False
        return g
    height = rng.randint(1, 3)
    wrapped = rng.random() < 0.35
    off = 1 if wrapped else 0          # rule index of tower level L is off + L
    ops = [[PLUS, MINUS], [STAR_], [94]]
    shared = rng.random() < 0.5        # an operand RULE used both inside the recursive alternatives and after the tower
    D = off + height + 1
    nrules = off + height + (1 if shared else 0)
    lr = []
    pending_helpers = []
    use_state = (not pure) and rng.random() < 0.5
    use_err = rng.random() < 0.5

    def leafop():
        e = g.lit([NN]) if rng.random() < 0.7 else g.un("plus", g.lit([NN]))
        if use_state and rng.random() < 0.4:      # a state change on a path that SUCCEEDS (also in the last, non-extending attempt)
            e = g.seq([g.state(rng.choice(["set", "inc"]), "x", rng.randint(1, 2)), e])
        if rng.random() < 0.6:
            e = g.action(e, err=use_err and rng.random() < 0.4)
        return e

    def operand(level):
        """non-left-recursive, non-nullable operand"""
        c = rng.random()
        if shared and rng.random() < 0.45:
            return g.ref(D)
        if level < height and c < 0.6:
            return g.ref(off + level + 1)
        if c < 0.85:
            return leafop()
        e = g.seq([g.lit([LP]), g.label(g.ref(off + 1)), g.lit([RP])])
        return g.action(e, err=use_err and rng.random() < 0.3) if rng.random() < 0.5 else e

    def rest(level):
        opc = rng.choice(ops[level - 1])
        items = [g.lit([opc])]
        if use_state and rng.random() < 0.5:
            items.append(g.state(rng.choice(["set", "inc"]), "x", rng.randint(1, 2), err=use_err and rng.random() < 0.2))
        if rng.random() < 0.2:
            items.append(g.pred(False, "true" if pure else rng.choice(["true", "eq"]), "x", rng.randint(0, 2)))
        r = operand(level)
        items.append(g.label(r) if rng.random() < 0.7 else r)
        if rng.random() < 0.2:
            items.append(g.un("not", g.lit([120])))   # the growth attempt is abandoned after the operand has been evaluated
        return items

    roots = []
    if wrapped:
        tail = [g.label(g.ref(2))]
        for _ in range(rng.randint(1, 2)):
            tail.append(g.lit([rng.choice([PLUS, MINUS, STAR_])]))
            tail.append(g.ref(D) if shared and rng.random() < 0.6 else (g.ref(off + rng.randint(1, height)) if rng.random() < 0.5 else leafop()))
        if rng.random() < 0.5:
            tail.append(g.lit([120]))
        roots.append(g.action(g.seq(tail)) if rng.random() < 0.5 else g.seq(tail))
        lr.append(0)
    for level in range(1, height + 1):
        k = rng.randint(1, 2)
        alts = []
        for j in range(k):
            rec_ref = g.ref(off + level)
            first = g.label(rec_ref) if rng.random() < 0.8 else rec_ref
            body = g.seq([first] + rest(level))
            if rng.random() < 0.8:
                body = g.action(body, err=use_err and rng.random() < 0.3)
            if rng.random() < 0.3:      # through one other rule
                nrules += 1
                pending_helpers.append((nrules, body))
                alts.append(g.ref(nrules))
            else:
                alts.append(body)
        nb = rng.randint(1, 2)
        for j in range(nb):
            b = operand(level) if level < height or j > 0 else leafop()
            if j == nb - 1 and rng.random() < 0.15:
                b = g.un("opt", g.lit([NN]))        # a base that can match the empty string
            alts.append(b)
        roots.append(g.choice(alts))
        lr.append(k)
    if shared:
        roots.append(g.action(g.lit([NN]) if rng.random() < 0.7 else g.un("plus", g.lit([NN])), err=use_err and rng.random() < 0.3))
        lr.append(0)
    for idx, body in pending_helpers:
        if rng.random() < 0.4:      # the other rule of the cycle has a base alternative of its own
            body = g.choice([body, g.action(g.lit([rng.choice([LP, 121])]))])
        roots.append(body)
        lr.append(0)
    g.rules = roots
    g.lr = lr
    g.disp = [""] * len(roots)
    g.compute_args()
    g.maydiverge = False
    return g


def lr_groups(seed, n, gi0=1, pure=False):
    rng = random.Random(seed)
    return [lr_group(rng, gi0 + i, pure=pure) for i in range(n)]


# ---- C07: shapes around rule references ---------------------------------------------------------
C07_SHAPES = ["X", "eX", "e?X", "(eX)*a", "&Xe", "!Xe", "X/e", "e/X", "l:X", "X{}", "&{t}X", "#{}X", "''X", "[^]X", "[]X",
              "(eX)?a", "X+", "&{f}X", "aX", "X//e", "e//X", "(e/'')X", "&(eX)a", "l:(e?)X{}", "!{f}X", "e/(e?e?)X", "e/(''/a?)X", "(&a/(e? ''))X", "e+X", "(e?)+X", "(e*)*X",
              "e//e?X", "X//a?X"]
C07_E = ["a", "a?", "''", "[ab]", "a*", "&a", "!a"]


def c07_body(g, shape, x, e):
    """x: target rule index, e: small expression id"""
    def E():
        if e == "a":
            return g.lit([A])
        if e == "a?":
            return g.un("opt", g.lit([A]))
        if e == "''":
            return g.lit([])
        if e == "[ab]":
            return g.cls((A, B), (), False, False)
        if e == "a*":
            return g.un("star", g.lit([A]))
        if e == "&a":
            return g.un("and", g.lit([A]))
        return g.un("not", g.lit([A]))
    X = lambda: g.ref(x)
    a = lambda: g.lit([A])
    s = shape
    if s == "X":
        return X()
    if s == "eX":
        return g.seq([E(), X()])
    if s == "e?X":
        return g.seq([g.un("opt", E()), X()])
    if s == "(eX)*a":
        return g.seq([g.un("star", g.seq([E(), X()])), a()])
    if s == "&Xe":
        return g.seq([g.un("and", X()), E()])
    if s == "!Xe":
        return g.seq([g.un("not", X()), E()])
    if s == "X/e":
        return g.choice([X(), E()])
    if s == "e/X":
        return g.choice([E(), X()])
    if s == "l:X":
        return g.seq([g.label(X()), a()])
    if s == "X{}":
        return g.action(X())
    if s == "&{t}X":
        return g.seq([g.pred(False, "true"), X()])
    if s == "!{f}X":
        return g.seq([g.pred(True, "false"), X()])
    if s == "&{f}X":
        return g.seq([g.pred(False, "false"), X()])
    if s == "#{}X":
        return g.seq([g.state("set", "x", 1), X()])
    if s == "''X":
        return g.seq([g.lit([]), X()])
    if s == "[^]X":
        return g.seq([g.cls((), (), True, False), X()])
    if s == "[]X":
        return g.seq([g.cls((), (), False, False), X()])
    if s == "(eX)?a":
        return g.seq([g.un("opt", g.seq([E(), X()])), a()])
    if s == "X+":
        return g.un("plus", X())
    if s == "aX":
        return g.seq([a(), X()])
    if s == "X//e":
        return g.recover(X(), E(), ["la"])
    if s == "e//X":
        return g.recover(g.seq([E(), g.throw("la")]), X(), ["la"])
    if s == "e//e?X":        # the recursion starts inside the recovery expression, behind a nullable item (repaired defect F29)
        return g.recover(g.seq([E(), g.throw("la")]), g.seq([g.seq([g.un("opt", a()), g.lit([])]), X()]), ["la"])
    if s == "X//a?X":
        return g.recover(g.seq([E(), g.throw("la")]), g.choice([g.seq([a(), a()]), g.seq([g.choice([g.lit([]), g.un("star", a())]), X()])]), ["la"])
    if s == "(e/'')X":
        return g.seq([g.choice([E(), g.lit([])]), X()])
    if s == "&(eX)a":
        return g.seq([g.un("and", g.seq([E(), X()])), a()])
    if s == "e/(e?e?)X":
        return g.choice([E(), g.seq([g.seq([g.un("opt", E()), g.un("opt", a())]), X()])])
    if s == "e/(''/a?)X":
        return g.choice([E(), g.seq([g.choice([g.lit([]), g.un("opt", a())]), X()])])
    if s == "(&a/(e? ''))X":
        return g.seq([g.choice([g.un("and", a()), g.seq([g.un("opt", E()), g.lit([])])]), X()])
    if s == "e+X":
        return g.seq([g.un("plus", E()), X()])
    if s == "(e?)+X":
        return g.seq([g.un("plus", g.un("opt", E())), X()])
    if s == "(e*)*X":
        return g.seq([g.un("star", g.un("star", E())), X()])
    if s == "l:(e?)X{}":
        return g.action(g.seq([g.label(g.un("opt", E())), X()]))
    raise ValueError(s)


def c07_group(gi, spec):
    """spec: list per rule of (shape, target, e, with_base)"""
    g = Gram(gi)
    roots = []
    for (shape, x, e, base) in spec:
        b = c07_body(g, shape, x, e)
        if base:
            b = g.choice([b, g.lit([B])])
        roots.append(b)
    g.rules = roots
    g.disp = [""] * len(roots)
    g.compute_args()
    g.maydiverge = True     # always run under a budget
    return g


def c07_specs(rng, nrand, exhaustive_rules=1):
    specs = []
    # exhaustive: single rule referring to itself, every shape x every e
    for s in C07_SHAPES:
        for e in C07_E:
            for base in (False, True):
                specs.append([(s, 1, e, base)])
    # exhaustive over shapes for two mutually referring rules (e fixed per rule)
    for s1 in C07_SHAPES:
        for s2 in C07_SHAPES:
            specs.append([(s1, 2, "a?", True), (s2, 1, "''", True)])
    for _ in range(nrand):
        nr = rng.randint(2, 3)
        specs.append([(rng.choice(C07_SHAPES), rng.randint(1, nr), rng.choice(C07_E), rng.random() < 0.7) for _ in range(nr)])
    return specs
