"""C03 / C20a: concrete PEG syntax as a RENDERER.  render_grammar(ast, tape) spells an abstract grammar as text,
consuming one element of a choice tape wherever the documented syntax offers a choice (definition operator,
display-name and literal quoting, escape forms, class member spellings, layout, comments, terminators,
redundant parentheses, code-block contents) and returns, with the text, the AST the text DENOTES in the format
of the front-end dump (kinds, values, flags, and for every node the offset of the first token of its production).
The binding strengths (recover < choice < action < sequence < label < prefix < suffix < primary) decide where
parentheses are REQUIRED; they are part of this specification, not of the code under test."""
import random

LEVEL = {"Recover": 0, "Choice": 1, "Action": 2, "Seq": 3, "Label": 4, "Throw": 4, "And": 5, "Not": 5, "Opt": 6, "Star": 6, "Plus": 6}
PRIMARY = 7
RESERVED = {"break", "case", "chan", "const", "continue", "default", "defer", "else", "fallthrough", "for", "func", "go", "goto", "if",
            "import", "interface", "map", "package", "range", "return", "select", "struct", "switch", "type", "var"}
UCL_SINGLE = list("LMNCPZS")
UCL_LONG = ["Lu", "Ll", "Nd", "Greek", "Latin", "Cyrillic", "Zs", "Pc", "White_Space"]


class Tape:
    def __init__(self, rng, boring=False):
        self.rng, self.boring = rng, boring

    def pick(self, n, kind=None):
        return 0 if self.boring else self.rng.randrange(n)

    def chance(self, p):
        return (not self.boring) and self.rng.random() < p


class Out:
    """text builder that knows the current byte offset"""

    def __init__(self):
        self.parts, self.off = [], 0

    def w(self, s):
        b = s if isinstance(s, bytes) else s.encode()
        self.parts.append(b)
        self.off += len(b)

    def text(self):
        return b"".join(self.parts)


def node(t, off, kids=None, val=None, name="", ic=False, inv=False, chars=None, rngs=None, ucl=None, labs=None):
    return dict(t=t, off=off, kids=kids or [], val=list(val) if val is not None else [], name=name, ic=ic, inv=inv,
                chars=chars or [], rngs=rngs or [], ucl=ucl or [], labs=labs or [])


# ---- layout ---------------------------------------------------------------------------------
def ws(o, t, newline_ok=True, must=False):
    """__ : ( Whitespace / EOL / Comment )*"""
    n = t.pick(6, "ws")
    if n == 0 and not must:
        return
    if n <= 2 or (must and n == 0):
        o.w(" ")
    elif n == 3:
        o.w("\t " if newline_ok else "  ")
    elif n == 4:
        o.w("\n  " if newline_ok else " ")
    else:
        c = t.pick(9)
        if c == 0:
            o.w(" /* c{o}m \"m\" */ ")
        elif c == 1 and newline_ok:
            o.w(" // line { comment\n ")
        elif c >= 3:        # stars and slashes inside a block comment, runs of stars before the closing slash
            o.w([" /***/ ", " /** doc **/ ", " /* * / */ ", " /*/ */ ", " /* a * b ***/ ", " /****/ "][c - 3])
        else:
            o.w(" /**/ ")


# ---- terminals ------------------------------------------------------------------------------
SIMPLE_ESC = {7: "a", 8: "b", 10: "n", 12: "f", 13: "r", 9: "t", 11: "v", 92: "\\"}


def esc_char(r, t, quote):
    """one rune of a "..." / '...' literal or of a class, in one of its spellings"""
    forms = []
    if r < 0:            # a raw BYTE of the literal's value (a Go string is a byte string): only \xHH and \ooo denote one
        b = -r
        return ["\\x%02x" % b, "\\x%02X" % b, "\\%03o" % b][t.pick(3)]
    if r >= 32 and r != 127 and r != quote and r != 92 and not (0xD800 <= r <= 0xDFFF):
        forms.append(chr(r))
    if r in SIMPLE_ESC:
        forms.append("\\" + SIMPLE_ESC[r])
    if r == quote:
        forms.append("\\" + chr(quote))
    if r < 128:
        forms.append("\\x%02x" % r)
        forms.append("\\x%02X" % r)
        forms.append("\\%03o" % r)
    if r <= 0xFFFF:
        forms.append("\\u%04x" % r)
    forms.append("\\U%08x" % r)
    return forms[t.pick(len(forms))]


def render_string(o, t, runes, kinds=("d", "s", "r")):
    """a StringLiteral spelling of the rune string; returns the raw text"""
    ok = ["d"]
    if len(runes) == 1 and "s" in kinds:
        ok.append("s")
    if "r" in kinds and all(r != 96 and r != 13 for r in runes) and all(r >= 32 or r in (10, 9) for r in runes) and all(r >= 0 for r in runes):
        ok.append("r")
    k = ok[t.pick(len(ok))]
    if k == "d":
        s = '"' + "".join(esc_char(r, t, 34) for r in runes) + '"'
    elif k == "s":
        s = "'" + esc_char(runes[0], t, 39) + "'"
    else:
        s = "`" + "".join(chr(r) for r in runes) + "`"
    o.w(s)
    return s


def class_member_char(r, t):
    forms = []
    if r >= 32 and r != 127 and r not in (93, 92, 45, 94):
        forms.append(chr(r))
    if r == 93:
        forms.append("\\]")
    if r in SIMPLE_ESC:
        forms.append("\\" + SIMPLE_ESC[r])
    if r < 128:                      # also the dash: an ESCAPED dash is a character (finding F18, repaired)
        forms.append("\\x%02x" % r)
        forms.append("\\%03o" % r)
    if r <= 0xFFFF:
        forms.append("\\u%04x" % r)
    if not forms:
        forms.append("\\U%08x" % r)
    return forms[t.pick(len(forms))]


def render_class(o, t, members, inv, ic):
    """members: list of ("c", r) | ("r", lo, hi) | ("u", name).  Returns (raw, chars, rngs, ucl)"""
    s = "[" + ("^" if inv else "")
    chars, rngs, ucl = [], [], []
    for idx, m in enumerate(members):
        if m[0] == "c":
            # an unescaped dash is a plain character at the very start, at the very end, and right after a range
            # ... and next to a Unicode class escape, which is not a character and so cannot be an end of a range ([a\pL-z], [a-\pL])
            plain_dash = m[1] == 45 and (idx == 0 or idx == len(members) - 1 or members[idx - 1][0] in ("r", "u") or members[idx + 1][0] == "u") and t.chance(0.7)
            s += "-" if plain_dash else class_member_char(m[1], t)
            chars.append(m[1])
        elif m[0] == "r":
            s += class_member_char(m[1], t) + "-" + class_member_char(m[2], t)
            rngs += [m[1], m[2]]
        else:
            s += ("\\p" + m[1]) if len(m[1]) == 1 else ("\\p{" + m[1] + "}")
            ucl.append(m[1])
    s += "]" + ("i" if ic else "")
    o.w(s)
    return s, chars, rngs, ucl


CODE_BODIES = [" return nil, nil ", "\n\treturn x, nil\n", " if a { b() } else { c() }; return 1, nil ", ' s := "}{"; return s, nil ',
               " // comment with }\n return nil, nil ", " /* { */ return nil, nil /* } */ ", " r := '{'; _ = r; return `}`, nil ",
               " m := map[string]struct{}{}; _ = m; return nil, nil ", "", " return \"a\\\"}b\", nil ",
               " return \"}\\n\", nil ", " s := \"{\\t\\x41\"; return s + \"\\u00e9}\", nil ", " return \"\\\\\", nil // }\n",
               "\r\n\tx := 1\r\n\treturn x, nil\r\n", " return `a\r\nb`, nil ", "\t// tab\tcomment\r\n return nil, nil ",      # carriage returns inside a block are part of its text
               "\n\t//{ a comment that starts like the recovery operator\n\treturn nil, nil\n", " //{e} }{\n return 1, nil ", " x := 1 //{\n return x, nil "]


def render_code(o, t):
    off = o.off
    s = "{" + CODE_BODIES[t.pick(len(CODE_BODIES))] + "}"
    o.w(s)
    return node("Code", off, val=s.encode())


# ---- expressions ----------------------------------------------------------------------------
def render_expr(o, t, e, ctx):
    """render abstract expression e (dict with k, ...) in a context that requires binding strength >= ctx.
    Returns the expected dump node (positions as byte offsets for now)."""
    k = e["k"]
    lvl = LEVEL.get(k, PRIMARY)
    need = lvl < ctx
    redundant = (not need) and t.chance(0.08)
    if need or redundant:
        start = o.off
        o.w("(")
        ws(o, t)
        n = render_expr(o, t, e, 0)
        ws(o, t)
        o.w(")")
        # a group returns its inner expression; composite parents take their position from the "(" through pstart
        n["pstart"] = start
        return n
    off = o.off
    if k == "Lit":
        raw = render_string(o, t, e["s"])
        if e["ic"]:
            o.w("i")
        return node("Lit", off, val=b"".join(bytes([-r]) if r < 0 else chr(r).encode() for r in e["s"]), ic=e["ic"])
    if k == "Class":
        raw, chars, rngs, ucl = render_class(o, t, e["members"], e["inv"], e["ic"])
        return node("Class", off, val=raw.encode(), ic=e["ic"], inv=e["inv"], chars=chars, rngs=rngs, ucl=ucl)
    if k == "Any":
        o.w(".")
        return node("Any", off)
    if k == "Ref":
        o.w(e["name"])
        return node("Ref", off, name=e["name"])
    if k == "Throw":
        o.w("%{" + e["label"] + "}")
        return node("Throw", off, name=e["label"])
    if k in ("State", "AndCode", "NotCode"):
        o.w({"State": "#", "AndCode": "&", "NotCode": "!"}[k])
        ws(o, t)
        c = render_code(o, t)
        return node(k, off, kids=[c])
    if k in ("And", "Not"):
        o.w("&" if k == "And" else "!")
        ws(o, t)
        c = render_expr(o, t, e["e"], 6)
        return node(k, off, kids=[c])
    if k in ("Opt", "Star", "Plus"):
        c = render_expr(o, t, e["e"], PRIMARY)
        ws(o, t)
        o.w({"Opt": "?", "Star": "*", "Plus": "+"}[k])
        return node(k, c.get("pstart", c["off"]), kids=[c])
    if k == "Label":
        o.w(e["name"])
        ws(o, t)
        o.w(":")
        ws(o, t)
        c = render_expr(o, t, e["e"], 5)
        return node("Label", off, kids=[c], name=e["name"])
    if k == "Seq":
        kids = []
        for i, x in enumerate(e["es"]):
            if i and t.chance(0.15):
                # SeqExpr <- LabeledExpr ( __ LabeledExpr )* : the separator may be EMPTY where the two tokens cannot run into
                # each other: not identifier + identifier, and no identifier starting with i after a literal or class (that i
                # would be the ignore-case suffix).  A dry run tells the first byte of the next item.
                st, np_, off_ = t.rng.getstate(), len(o.parts), o.off
                render_expr(o, t, x, 4)
                first = b"".join(o.parts[np_:])[:1]
                del o.parts[np_:]
                o.off = off_
                t.rng.setstate(st)
                prev = o.text()[-1:]
                identc = lambda b: b.isalnum() or b == b"_" or b >= b"\x80"
                if (identc(prev) and identc(first)) or (prev in (b'"', b"'", b"`", b"]") and first == b"i") or first == b"" or prev == b"":
                    o.w(" ")
            elif i:
                ws(o, t, must=True)
            kids.append(render_expr(o, t, x, 4))
        return node("Seq", kids[0].get("pstart", kids[0]["off"]), kids=kids)
    if k == "Action":
        c = render_expr(o, t, e["e"], 3)
        ws(o, t)
        code = render_code(o, t)
        return node("Action", c.get("pstart", c["off"]), kids=[c, code])
    if k == "Choice":
        kids = []
        for i, x in enumerate(e["es"]):
            if i:
                ws(o, t)
                o.w("/")
                ws(o, t)
            kids.append(render_expr(o, t, x, 2))
        return node("Choice", kids[0].get("pstart", kids[0]["off"]), kids=kids)
    if k == "Recover":
        # e //{labels} rec : left-associative; every recovery node is positioned at the start of the whole expression
        c = render_expr(o, t, e["e"], 0 if e["e"]["k"] == "Recover" else 1)
        ws(o, t)
        o.w("//{")
        ws(o, t)
        for i, l in enumerate(e["labels"]):
            if i:
                ws(o, t)
                o.w(",")
                ws(o, t)
            o.w(l)
        ws(o, t)
        o.w("}")
        ws(o, t)
        r = render_expr(o, t, e["rec"], 1)
        return node("Recover", c.get("pstart", c["off"]), kids=[c, r], labs=list(e["labels"]))
    raise ValueError(k)


def render_grammar(g, t):
    """g: dict(init:bool, rules:[dict(name, disp, e)]).  Returns (text bytes, expected dump)"""
    o = Out()
    ws(o, t)
    kids = []
    if g.get("init"):
        off = o.off
        s = "{\npackage main\n" + ("// }{ \n" if t.chance(0.3) else "") + "}"
        o.w(s)
        kids.append(node("Init", off, val=s.encode()))
        term(o, t)
        ws(o, t)
    for i, r in enumerate(g["rules"]):
        off = o.off
        o.w(r["name"])
        ws(o, t)
        rn = node("Rule", off, name=r["name"])
        if r.get("disp") is not None:
            o2 = Out()
            raw = render_string(o2, t, r["disp"])
            o.w(raw)
            rn["val"] = list(raw.encode())
            rn["ic"] = True
            ws(o, t)
        o.w(["<-", "=", "←", "⟵"][t.pick(4, "defop")])
        ws(o, t)
        rn["kids"] = [render_expr(o, t, r["e"], 0)]
        kids.append(rn)
        last = i == len(g["rules"]) - 1
        term(o, t, last)
        if not last:
            ws(o, t)
    txt = o.text()
    return txt, node("Grammar", 0, kids=kids)


def term(o, t, last=False):
    """EOS: __ ';'  /  _ SingleLineComment? EOL  /  __ EOF"""
    n = t.pick(5 if last else 4, "term")
    if n == 0:
        o.w("\n")
    elif n == 1:
        ws(o, t)
        o.w(";")
    elif n == 2:
        o.w("  // trailing comment\n")
    elif n == 3:
        o.w(" /* c */ \t\n")
    else:
        ws(o, t)     # end of file


# ---- random abstract grammars ----------------------------------------------------------------
ALPHA = [97, 98, 65, 90, 48, 32, 10, 9, 34, 39, 92, 93, 91, 123, 125, 0xE9, 0x20AC, 0x1F600, 0x2190, 96, 45, 94, 47, 7]
SPECIAL = [0x212A, 0x17F, 0xDF, 0x3A3, 0x3C2, 0x1C5, 0x2163, 0x2173, 0x1E9E, 0xB5, 0xFFFD, 0xFFFE, 0xD7FF, 0xE000, 0x10FFFF]     # runes with unusual case orbits


def rand_rune(rng):
    """mostly the characters that need care in the concrete syntax, but any printable ASCII character and the runes
    whose case orbit leaves their block can occur"""
    c = rng.random()
    if c < 0.6:
        return rng.choice(ALPHA)
    if c < 0.9:
        return rng.randint(33, 126)
    return rng.choice(SPECIAL)


IDENTS = ["A", "B1", "_c", "Rule_2", "été", "x", "Expr", "T9", "Ωm", "a_b", "in", "id1", "i"]
LABELS = ["a", "b2", "_l", "val", "ü"]


def rand_expr(rng, d, names):
    if d <= 0:
        k = rng.choice(["Lit", "Lit", "Class", "Any", "Ref", "Lit"])
    else:
        k = rng.choice(["Lit", "Class", "Any", "Ref", "Seq", "Seq", "Choice", "Choice", "Action", "Label", "And", "Not", "Opt", "Star", "Plus",
                        "State", "AndCode", "NotCode", "Throw", "Recover"])
    if k == "Lit":
        n = rng.choice([0, 1, 1, 2, 3])
        # now and then a byte that is no UTF-8 by itself ("\xe9", '\351'): the value of a literal is a byte string
        return dict(k="Lit", s=[(-rng.choice([0x80, 0xA9, 0xC3, 0xE9, 0xFF]) if rng.random() < 0.06 else rand_rune(rng)) for _ in range(n)], ic=rng.random() < 0.3)
    if k == "Class":
        ms = []
        if rng.random() < 0.15:       # a character, a range, a dash right after the range, more characters: [_a-c-e]
            ms = [("c", rng.choice([95, 97, 0xE9])), ("r", 97, 99), ("c", 45), ("c", rng.choice([101, 48]))][rng.randint(0, 1):]
        elif rng.random() < 0.12:     # a dash next to a Unicode class escape: [a\pL-z], [a-\pL], [a-c\pN-]
            u = ("u", rng.choice(UCL_SINGLE + UCL_LONG))
            ms = rng.choice([[("c", 97), u, ("c", 45), ("c", 122)], [("c", rng.choice([97, 48])), ("c", 45), u], [("r", 97, 99), u, ("c", 45)],
                             [("c", 0xE9), u, ("c", 45), ("c", rng.choice([0x20AC, 122])), ("c", 48)]])
        for _ in range(rng.choice([0, 1, 2, 3, 4, 5])):
            c = rng.random()
            if c < 0.5:
                ms.append(("c", rand_rune(rng)))
            elif c < 0.75:
                a, b = sorted([rng.choice([97, 98, 65, 90, 48, 0xE9]), rng.choice([99, 122, 90, 57, 0x20AC])])
                ms.append(("r", a, b))
            else:
                ms.append(("u", rng.choice(UCL_SINGLE + UCL_LONG)))
        # "^" must not be the first member of a non-inverted class, "-" must not look like a range
        inv = rng.random() < 0.3
        if ms and ms[0][0] == "c" and ms[0][1] == 94 and not inv:
            ms = ms[1:]
        return dict(k="Class", members=ms, inv=inv, ic=rng.random() < 0.3)
    if k == "Any":
        return dict(k="Any")
    if k == "Ref":
        return dict(k="Ref", name=rng.choice(names))
    if k in ("Seq", "Choice"):
        return dict(k=k, es=[rand_expr(rng, d - 1, names) for _ in range(rng.randint(2, 3))])
    if k == "Action":
        return dict(k="Action", e=rand_expr(rng, d - 1, names))
    if k == "Label":
        return dict(k="Label", name=rng.choice(LABELS), e=rand_expr(rng, d - 1, names))
    if k in ("And", "Not", "Opt", "Star", "Plus"):
        return dict(k=k, e=rand_expr(rng, d - 1, names))
    if k in ("State", "AndCode", "NotCode"):
        return dict(k=k)
    if k == "Throw":
        return dict(k="Throw", label=rng.choice(["err", "e2", "_x"]))
    if k == "Recover":
        return dict(k="Recover", e=rand_expr(rng, d - 1, names), rec=rand_expr(rng, d - 1, names), labels=rng.sample(["err", "e2", "_x"], rng.randint(1, 2)))
    raise ValueError(k)


def fix_shape(e):
    """the front-end never builds a sequence/choice of one element, nor a choice directly inside a choice etc.; the
    abstract grammars are kept in the shape the syntax denotes: Seq items are not Seq, Choice alternatives are not Choice."""
    k = e["k"]
    if k in ("Seq", "Choice"):
        es = [fix_shape(x) for x in e["es"]]
        e["es"] = es
        return e
    for f in ("e", "rec"):
        if f in e:
            e[f] = fix_shape(e[f])
    return e


def rand_grammar(rng, depth=3, bootstrap_subset=False):
    nr = rng.randint(1, 4)
    names = rng.sample(IDENTS, nr)
    rules = []
    for nm in names:
        disp = None
        if rng.random() < 0.3:
            disp = [rng.choice([97, 32, 66, 34, 39, 0xE9]) for _ in range(rng.randint(1, 3))]
        rules.append(dict(name=nm, disp=disp, e=fix_shape(rand_expr(rng, depth, names))))
    return dict(init=rng.random() < 0.6, rules=rules)
