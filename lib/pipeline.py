"""The loop  cases -> .peg packs -> real pigeon (built from /repo's working tree) -> go build ->
run -> observations -> TLC (TraceT1 over PegRef) -> divergences."""
import atexit, json, os, re, shutil, subprocess, sys, tempfile, time
from concurrent.futures import ThreadPoolExecutor

VERIF = os.path.dirname(os.path.dirname(os.path.abspath(__file__)))
REPO = os.environ.get("VERIF_REPO", "/repo")
ENV = dict(os.environ, GOFLAGS="-mod=mod", GOPROXY="off")
ENV.pop("GOSUMDB", None)
TLA_CP = "/opt/veriftools/tla/tla2tools.jar:/opt/veriftools/tla/CommunityModules-deps.jar"


class Inconclusive(Exception):
    """machinery failure (exit 2): never a property verdict"""


_work = None


def workdir():
    global _work
    if _work is None:
        # scratch directories of runs that were killed (no atexit) are removed by the next run: the name carries the pid
        for d in os.listdir(tempfile.gettempdir()):
            m = re.match(r"verif-(\d+)-", d)
            if m and not os.path.exists("/proc/%s" % m.group(1)):
                shutil.rmtree(os.path.join(tempfile.gettempdir(), d), ignore_errors=True)
        _work = tempfile.mkdtemp(prefix="verif-%d-" % os.getpid())
        if not os.environ.get("VERIF_KEEP"):
            atexit.register(shutil.rmtree, _work, True)
        # generated packages are unique per run: they are compiled with a private build cache that disappears with the run
        ENV["GOCACHE"] = os.path.join(_work, "gocache")
    return _work


def sh(cmd, cwd=None, timeout=600, env=None, check=True, stdin=None):
    p = subprocess.run(cmd, cwd=cwd, env=env or ENV, stdout=subprocess.PIPE, stderr=subprocess.PIPE,
                       timeout=timeout, input=stdin)
    if check and p.returncode != 0:
        raise Inconclusive("command failed (%d): %s\n%s" % (p.returncode, " ".join(map(str, cmd)),
                                                          (p.stderr or p.stdout).decode(errors="replace")[-3000:]))
    return p


_pigeon = None


def build_pigeon(tags=None):
    """pigeon built from the current working tree of /repo (hooks on when tags given)"""
    global _pigeon
    key = tags or ""
    if _pigeon and _pigeon[0] == key:
        return _pigeon[1]
    out = os.path.join(workdir(), "pigeon" + ("_" + tags if tags else ""))
    cmd = ["go", "build", "-o", out]
    if tags:
        cmd += ["-tags", tags]
    cmd += ["."]
    env = dict(ENV)
    env.pop("GOCACHE", None)
    sh(cmd, cwd=REPO, timeout=900, env=env)
    _pigeon = (key, out)
    return out


class Variant:
    """one pack of groups x one generation-flag set = one generated parser + runner binary"""

    def __init__(self, vi, name, groups, flags, state_file=None, opt_file=None, peg_text=None):
        self.vi, self.name, self.groups, self.flags = vi, name, groups, list(flags)
        self.optimized = "-optimize-parser" in self.flags
        has_state = any("state" in g.tags for g in groups)
        self.state_on = has_state or not self.optimized
        self.dir = os.path.join(workdir(), "v%d_%s" % (vi, name))
        self.peg_text = peg_text
        self.gen_rc = None
        self.gen_err = ""
        self.build_err = ""
        self.bin = None

    def generate(self, pigeon, extra_flags=()):
        from peg import pack_text
        os.makedirs(self.dir, exist_ok=True)
        peg = os.path.join(self.dir, "pack.peg")
        with open(peg, "w") as f:
            f.write(self.peg_text or pack_text(self.groups))
        flags = list(self.flags) + list(extra_flags)
        p = sh([pigeon] + flags + ["-o", os.path.join(self.dir, "g.go"), peg], check=False, timeout=120)
        self.gen_rc = p.returncode
        self.gen_err = (p.stderr + p.stdout).decode(errors="replace")[-2000:]
        return p.returncode == 0

    def build(self, race=False):
        r = os.path.join(VERIF, "runner")
        shutil.copy(os.path.join(r, "runner_common.go.txt"), os.path.join(self.dir, "runner_common.go"))
        shutil.copy(os.path.join(r, "state_on.go.txt" if self.state_on else "state_off.go.txt"), os.path.join(self.dir, "state.go"))
        shutil.copy(os.path.join(r, "opts_opt.go.txt" if self.optimized else "opts_std.go.txt"), os.path.join(self.dir, "opts.go"))
        with open(os.path.join(self.dir, "go.mod"), "w") as f:
            f.write("module vrun\n\ngo 1.25.0\n")
        cmd = ["go", "build"] + (["-race"] if race else []) + ["-o", "runner", "."]
        p = sh(cmd, cwd=self.dir, check=False, timeout=900)
        if p.returncode != 0:
            self.build_err = (p.stderr + p.stdout).decode(errors="replace")[-3000:]
            return False
        self.bin = os.path.join(self.dir, "runner")
        return True

    def run(self, inputs, options, plan, timeout_ms=5000, debug_out=None, mem_mb=2048, conc=0, rounds=1, obs_name="obs.ndjson", debug_keep=0):
        """plan: list of [group index in self.groups, input index, option index]; returns observations"""
        req = dict(groups=[dict(gi=g.gi, entry=g.sname(), rules=[g.rname(i + 1) for i in range(len(g.rules))],
                                blocks={str(n["blk"]): dict(k=n["k"], op=n["op"], key=n["key"], arg=n["arg"], g=n["g"], err=n["err"])
                                        for n in g.nodes if n["blk"]}) for g in self.groups],
                   inputs=inputs, options=options, plan=plan, timeout_ms=timeout_ms, mem_mb=mem_mb, variant=self.vi, conc=conc, rounds=rounds, debug_keep=debug_keep)
        rq = os.path.join(self.dir, "req%s.json" % ("" if obs_name == "obs.ndjson" else "_" + obs_name))
        with open(rq, "w") as f:
            json.dump(req, f)
        ob = os.path.join(self.dir, obs_name)
        if os.path.exists(ob):
            os.remove(ob)
        open(ob, "w").close()
        skip = 0
        restarts = 0
        dbg = open(debug_out, "ab") if debug_out else subprocess.DEVNULL
        while skip < len(plan):
            p = subprocess.run([self.bin, rq, ob, str(skip)], stdout=dbg, stderr=subprocess.PIPE, env=ENV)
            done = sum(1 for _ in open(ob))
            self.last_stderr = p.stderr.decode(errors="replace")
            if p.returncode == 0:
                if done != len(plan):
                    raise Inconclusive("runner produced %d of %d observations" % (done, len(plan)))
                break
            restarts += 1
            if conc:
                self.conc_failure = (p.returncode, p.stderr.decode(errors="replace")[-3000:])
                return ob
            if restarts > 60:
                # too many parses that crash or do not return: what has been observed so far (incl. those) is validated,
                # the rest of this variant's plan is dropped
                self.truncated = True
            err = p.stderr.decode(errors="replace")
            status = {98: "timeout", 97: "oom"}.get(p.returncode, "crash")
            if status == "timeout" and getattr(self, "confirmed_timeouts", 0) < 3:
                # (after three confirmed ones the machine is not merely busy: further ones are taken as they are)
                # a parse that did not return within the limit is a verdict only when it is confirmed: the same process segment
                # (the parses since the last restart, so that whatever they left behind is there again) is run once more with
                # twelve times the limit; on a machine that was merely busy the parse now returns and its observation is used
                rq2, ob2 = rq + ".confirm", ob + ".confirm"
                with open(rq2, "w") as f:
                    json.dump(dict(req, plan=plan[:done + 1], timeout_ms=timeout_ms * 12), f)
                with open(ob2, "w") as f:
                    for i_, ln_ in enumerate(open(ob)):
                        if i_ < skip:
                            f.write(ln_)
                p2 = subprocess.run([self.bin, rq2, ob2, str(skip)], stdout=subprocess.DEVNULL, stderr=subprocess.PIPE, env=ENV)
                lines2 = open(ob2).read().splitlines()
                os.remove(rq2)
                os.remove(ob2)
                if p2.returncode == 0 and len(lines2) == done + 1:
                    with open(ob, "a") as f:
                        f.write(lines2[done] + "\n")
                    self.unconfirmed_timeouts = getattr(self, "unconfirmed_timeouts", 0) + 1
                    skip = done + 1
                    continue
                self.confirmed_timeouts = getattr(self, "confirmed_timeouts", 0) + 1
            if status == "crash":
                if "stack overflow" in err or "stack exceeds" in err:
                    status = "stackoverflow"
                elif "DATA RACE" in err:
                    status = "race"
            pl = plan[done]
            g = self.groups[pl[0]]
            o = dict(k=done + 1, vi=self.vi, gi=g.gi, ii=pl[1] + 1, oi=pl[2] + 1, status=status, ok=False, end=0, val=[],
                     nval=[], store=[], g=0, events=[], errs=[], nomatch={"is": False, "pos": [], "exp": []}, budget=False, exprcnt=-1,
                     escaped="", typed=True, innerok=True, prefixok=True, sorted=True, nilval=True, choices="", haschoices=False, choicestat=[], stale=False,
                     detail=err[-400:] if status == "crash" else "")
            with open(ob, "a") as f:
                f.write(json.dumps(o) + "\n")
            skip = done + 1
            if getattr(self, "truncated", False):
                break
        if debug_out:
            dbg.close()
        return ob


def parallel(fn, items, workers=16):
    with ThreadPoolExecutor(max_workers=workers) as ex:
        return list(ex.map(fn, items))


# ---- TLC --------------------------------------------------------------------------------
def run_tlc(module, cfg_text, files, workers=1, timeout=3600, extra=(), heap="8g", simulate=None):
    """run TLC on spec/<module>.tla in a scratch directory holding the data files"""
    d = tempfile.mkdtemp(prefix="tlc-", dir=workdir())
    for f in os.listdir(os.path.join(VERIF, "spec")):
        if f.endswith(".tla"):
            shutil.copy(os.path.join(VERIF, "spec", f), d)
    for name, (kind, src) in files.items():
        if kind == "text":
            with open(os.path.join(d, name), "w") as f:
                f.write(src)
        else:
            os.symlink(os.path.abspath(src), os.path.join(d, name))
    with open(os.path.join(d, module + ".cfg"), "w") as f:
        f.write(cfg_text)
    jtmp = os.path.join(d, "jtmp")          # TLC/SANY unpack their standard modules into java.io.tmpdir on every run
    os.makedirs(jtmp, exist_ok=True)
    cmd = ["java", "-XX:+UseParallelGC", "-Xss512m", "-Xmx" + heap, "-Djava.io.tmpdir=" + jtmp, "-cp", TLA_CP, "tlc2.TLC",
           "-workers", str(workers), "-metadir", os.path.join(d, "meta"), "-config", module + ".cfg"]
    if simulate:
        cmd += ["-simulate", simulate]
    cmd += list(extra) + [module + ".tla"]
    t0 = time.time()
    try:
        p = subprocess.run(cmd, cwd=d, stdout=subprocess.PIPE, stderr=subprocess.STDOUT, timeout=timeout)
    except subprocess.TimeoutExpired:
        raise Inconclusive("TLC timed out on " + module)
    out = p.stdout.decode(errors="replace")
    res = dict(rc=p.returncode, out=out, wall=time.time() - t0, dir=d)
    if not os.environ.get("VERIF_KEEP"):
        shutil.rmtree(d, ignore_errors=True)
    m = re.search(r"(\d+) states generated, (\d+) distinct states found", out)
    if m:
        res["generated"], res["distinct"] = int(m.group(1)), int(m.group(2))
    return res


T1_CFG = "SPECIFICATION Spec\nINVARIANT Accepted\nCHECK_DEADLOCK FALSE\n"


def validate_t1(groups_path, tcase, obs_paths, shards=8, timeout=3600, module="TraceT1", obsname="obs.ndjson", lines=None, min_chunk=200,
                max_chunk=40000):
    """TraceT1 (or another trace module of the same shape) on the concatenated observations, streamed into shard
    files of at most max_chunk lines and validated by a pool of TLC processes.  returns (divergences, totals)"""
    sd = tempfile.mkdtemp(prefix="shards-", dir=workdir())
    files, counts = [], []
    cur, n = None, 0

    def src():
        if lines is not None:
            for ln in lines:
                yield ln
        else:
            for p in obs_paths:
                with open(p) as f:
                    for ln in f:
                        yield ln
    total = 0
    if lines is not None:
        total = len(lines)
    else:
        for p in obs_paths:
            with open(p) as f:
                total += sum(1 for _ in f)
    if total == 0:
        raise Inconclusive("no observations")
    nsh = max(1, min(shards, total // min_chunk or 1))
    chunk = min(max_chunk, (total + nsh - 1) // nsh)
    nbytes = 0
    for ln in src():
        if cur is None or n >= chunk or nbytes > 24_000_000:       # TLC needs some 50-100 bytes of heap per byte of JSON
            nbytes = 0
            if cur:
                cur.close()
                counts.append(n)
            files.append(os.path.join(sd, "shard%d.ndjson" % len(files)))
            cur, n = open(files[-1], "w"), 0
        cur.write(ln if ln.endswith("\n") else ln + "\n")
        n += 1
        nbytes += len(ln)
    if cur:
        cur.close()
        counts.append(n)
    tc = json.dumps(tcase)

    def one(path):
        return run_tlc(module, T1_CFG, {"groups.ndjson": ("path", groups_path), "tcase.json": ("text", tc), obsname: ("path", path)},
                       workers=1, timeout=timeout, heap="4g")
    results = parallel(one, files, workers=min(10, len(files)))
    div, n, states, trans = [], 0, 0, 0
    kfhits = []
    for r, cnt in zip(results, counts):
        done = None
        for ln in r["out"].splitlines():
            m = re.search(r'"(DIVERGE|DONE|KFHIT) (.*)"$', ln)
            if not m:
                continue
            js = json.loads(m.group(2).replace('\\"', '"'))
            if m.group(1) == "DIVERGE":
                div.append(js)
            elif m.group(1) == "KFHIT":
                kfhits.append(js)
            else:
                done = js
        if done is None or done["n"] != cnt:
            raise Inconclusive("TLC did not consume every observation:\n" + r["out"][-3000:])
        n += done["n"]
        states += r.get("distinct", 0)
        trans += r.get("generated", 0)
    shutil.rmtree(sd, ignore_errors=True)
    return div, dict(n=n, states=states, transitions=trans, kfhits=kfhits)
