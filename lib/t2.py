"""T2: Debug(true) output of real runs -> step traces -> TLC (TraceT2 over PegMachine)."""
import json, re, os
import pipeline as P

LINE = re.compile(rb"^( *)(>|<) (\d+):(\d+):(\d+): (.*?) \[U\+[0-9A-F]+(?: '.*')?\]$", re.S)


def parse_debug(path, plan, variant, wanted):
    """returns trace records for the plan entries k (1-based) in `wanted` (a set), wrapper rule stripped"""
    out = []
    cur = None
    data = open(path, "rb").read()
    # a printed rune may itself be a newline: split on the "]\n" that ends every line
    lines = data.split(b"\n")
    i = 0
    buf = b""
    for raw in lines:
        ln = buf + raw
        if ln.startswith(b"@@BEGIN "):
            k = int(ln.split()[1])
            cur = dict(k=k, evs=[]) if k in wanted else None
            buf = b""
            continue
        if ln.startswith(b"@@END "):
            if cur is not None:
                cur["ok"] = ln.split()[2] == b"true"
                out.append(cur)
            cur = None
            buf = b""
            continue
        if cur is None:
            buf = b""
            continue
        m = LINE.match(ln)
        if not m:
            if ln.lstrip().startswith(b">") or ln.lstrip().startswith(b"<"):
                buf = ln + b"\n"          # the rune printed is '\n': the line continues
                continue
            buf = b""
            continue                      # MATCH / RECURSIVE lines
        buf = b""
        ind, d, l, c, o, fn = m.groups()
        fn = fn.decode(errors="replace")
        depth = len(ind)
        if not fn.startswith("parse"):
            continue                      # restore, cloneState, restoreState, panic handler
        if depth < 4:
            continue                      # the entry wrapper rule: parseRule S, parseActionExpr, parseLabeledExpr, parseRuleRefExpr
        cur["evs"].append([d.decode(), fn, int(l), int(c), int(o)])
    return out


def validate(groups_path, tcase, traces, shards=12, timeout=3000):
    """returns (rejections, totals)"""
    if not traces:
        return [], dict(n=0, states=0, transitions=0, lines=0)
    shards = max(1, min(shards, len(traces) // 20 or 1))
    size = (len(traces) + shards - 1) // shards
    jobs = [traces[s * size:(s + 1) * size] for s in range(shards)]
    jobs = [j for j in jobs if j]
    cfg = "SPECIFICATION Spec\nINVARIANTS PosIsPure StepChecks BudgetBound Accepted\nCHECK_DEADLOCK FALSE\n"
    tc = json.dumps(tcase)

    def one(part):
        return P.run_tlc("TraceT2", cfg, {"groups.ndjson": ("path", groups_path), "tcase.json": ("text", tc),
                                           "t2.ndjson": ("text", "".join(json.dumps(t) + "\n" for t in part))}, workers=1, timeout=timeout, heap="6g")
    rej, n, st, tr = [], 0, 0, 0
    inv = []
    for r, part in zip(P.parallel(one, jobs, workers=len(jobs)), jobs):
        done = None
        for ln in r["out"].splitlines():
            m = re.search(r'"(REJECT|DONE) (.*)"$', ln)
            if m:
                js = json.loads(m.group(2).replace('\\"', '"'))
                if m.group(1) == "REJECT":
                    rej.append(js)
                else:
                    done = js
            m2 = re.search(r"Invariant (\w+) is violated", ln)
            if m2:
                inv.append(m2.group(1))
        if done is None and not inv:
            raise P.Inconclusive("TraceT2 did not finish:\n" + r["out"][-2500:])
        n += len(part)
        st += r.get("distinct", 0)
        tr += r.get("generated", 0)
    return rej, dict(n=n, states=st, transitions=tr, lines=sum(len(t["evs"]) for t in traces), invariants_violated=inv)
