#!/bin/bash
# tools/trial.sh <batchname> <ids...> : tries each seeded change (/tmp/mut/<id>/MUTANT/patch.diff, id = Cxx<round letter>) against the
# quick tier of its own property's check, one after the other; results go to /tmp/mut/<batchname>.log (read by record_mutants.py).
# Run it with VERIF_SNAP=<a git worktree of /verif's HEAD> so that edits made to /verif meanwhile do not reach the running checks.
b=$1; shift
for m in "$@"; do
  echo "### mutant $m" >> /tmp/mut/$b.log
  "$(dirname "$0")"/try_mutant.sh /tmp/mut/$m/MUTANT/patch.diff ${m%[a-z]} >> /tmp/mut/$b.log 2>&1
done
echo "### done" >> /tmp/mut/$b.log
