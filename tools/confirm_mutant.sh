#!/bin/bash
# tools/confirm_mutant.sh <ID>: in a FRESH scratch worktree of /repo's HEAD confirm that the seeded change (patch.diff)
# applies, that its demonstration fails with it and passes without it, and that the repository's tests pass with it.
id="$1"; src=/tmp/mut/$id/MUTANT; wt=/tmp/mutc/$id
export GOFLAGS=-mod=mod GOPROXY=off
[ -f $src/patch.diff ] || { echo "$id: no patch"; exit 2; }
mkdir -p /tmp/mutc; git -C /repo worktree remove --force $wt 2>/dev/null; rm -rf $wt
git -C /repo worktree add -q --detach $wt ${MUT_BASE:-HEAD} || exit 2
mkdir -p $wt/MUTANT && cp -r $src/. $wt/MUTANT/ && rm -f $wt/MUTANT/*.go 2>/dev/null
cp $src/*.go $wt/MUTANT/ 2>/dev/null
cd $wt
sed -i "s#/tmp/mut/$id#$wt#g" MUTANT/demo.sh MUTANT/*.sh 2>/dev/null
( timeout 900 bash MUTANT/demo.sh >/tmp/mutc/$id.demo_clean.log 2>&1 ); without=$?
git apply --exclude='MUTANT/*' MUTANT/patch.diff || { echo "$id: patch does not apply to HEAD"; exit 2; }
( timeout 900 bash MUTANT/demo.sh >/tmp/mutc/$id.demo_with.log 2>&1 ); with=$?
mv MUTANT /tmp/mutc/$id.MUTANT.tmp
( go build ./... >/dev/null 2>&1 && go test -vet=off -count=1 ./... >/tmp/mutc/$id.tests.log 2>&1 ); tests=$?
mv /tmp/mutc/$id.MUTANT.tmp MUTANT
echo "$id: demo_clean=$without (want 0)  demo_with_change=$with (want !=0)  tests_with_change=$tests (want 0)"
cd /; git -C /repo worktree remove --force $wt
