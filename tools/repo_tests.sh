#!/bin/sh
# runs the repository's own suite (guard off) the way the baseline does and prints a summary
cd /repo && GOFLAGS=-mod=mod GOPROXY=off go test -json -vet=off -count=1 -timeout 25m ./... 2>&1 | python3 -c '
import sys,json
p=f=0; fails=[]
for l in sys.stdin:
    try: d=json.loads(l)
    except Exception: continue
    if d.get("Test") and d.get("Action") in ("pass","fail"):
        if d["Action"]=="pass": p+=1
        else: f+=1; fails.append(d["Package"]+"::"+d["Test"])
    elif d.get("Action")=="fail" and not d.get("Test"): fails.append("PKG "+d["Package"])
print("passed",p,"failed",f); print("\n".join(fails))
sys.exit(1 if fails else 0)'
