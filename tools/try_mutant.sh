#!/bin/bash
# tools/try_mutant.sh <patch.diff> <check id>...
# Applies a seeded change in a scratch worktree of /repo's HEAD and runs the checks (quick tier) against that tree
# (VERIF_REPO), so that /repo itself stays untouched; the worktree is removed afterwards.
# (Equivalent to: git -C /repo apply <patch>; ./check <id>; git -C /repo checkout -- .)
set -u
patch="$1"; shift
wt=/tmp/mutwt/$$
mkdir -p /tmp/mutwt
git -C /repo worktree add -q --detach $wt ${MUT_BASE:-HEAD} || exit 2
( cd $wt && git apply --exclude='MUTANT/*' "$patch" ) || { echo "patch does not apply"; git -C /repo worktree remove --force $wt; exit 2; }
for id in "$@"; do
  ( cd ${VERIF_SNAP:-/verif} && VERIF_REPO=$wt VERIF_EVIDENCE_DIR=/tmp/mutwt/ev$$ timeout 3000 ./check "$id" --tier quick > /tmp/mutrun_$id.$$.log 2>&1; echo "$id exit=$? $(grep -c '^VIOLATION' /tmp/mutrun_$id.$$.log) violations; $(grep -m1 '^VIOLATION\|^INCONCLUSIVE' /tmp/mutrun_$id.$$.log | cut -c1-220)" )
done
git -C /repo worktree remove --force $wt; rm -rf /tmp/mutwt/ev$$
