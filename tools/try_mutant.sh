#!/bin/bash
# tools/try_mutant.sh <patch.diff> <check id>...   applies a seeded change to /repo, runs the checks (quick), reverts.
set -u
patch="$1"; shift
cd /repo || exit 2
if [ -n "$(git status --porcelain)" ]; then echo "repo not clean"; exit 2; fi
git apply "$patch" || { echo "patch does not apply"; exit 2; }
for id in "$@"; do
  ( cd /verif && timeout 2400 ./check "$id" --tier quick > /tmp/mutrun_$id.log 2>&1; echo "$id exit=$? $(grep -c '^VIOLATION' /tmp/mutrun_$id.log) violations; $(grep -m1 '^VIOLATION\|^INCONCLUSIVE' /tmp/mutrun_$id.log | cut -c1-220)" )
done
git -C /repo checkout -- . ; git -C /repo status --porcelain | head -3
