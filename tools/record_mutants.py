#!/usr/bin/env python3
"""append the results of mutant trial logs (/tmp/mut/batch*.log) to seeded/*/meta.json"""
import json, os, re, sys, glob
V = os.path.dirname(os.path.dirname(os.path.abspath(__file__)))
for log in sorted(glob.glob("/tmp/mut/batch*.log")):
    cur = None
    for ln in open(log):
        m = re.match(r"### mutant (\S+)", ln)
        if m:
            cur = m.group(1)
            continue
        m = re.match(r"(C\d+) exit=(\d+) (\d+) violations", ln)
        if m and cur:
            sfx = {"b": "-m2", "c": "-m3", "d": "-m4", "e": "-m5", "f": "-m6", "g": "-m7", "h": "-m8", "i": "-m9", "j": "-m10", "k": "-m11"}.get(cur[-1])
            d = os.path.join(V, "seeded", (cur[:-1] + sfx) if sfx else cur + "-m1")
            mp = os.path.join(d, "meta.json")
            if not os.path.isdir(d):
                continue
            meta = json.load(open(mp)) if os.path.exists(mp) else dict(property=cur.rstrip("bcdefghijk"), origin="sub-agent given only the property text and a scratch worktree",
                                                                        confirmed=dict(how="tools/confirm_mutant.sh in a fresh worktree of /repo HEAD: demo fails with the change, passes without, repository tests pass with it"))
            runs = meta.setdefault("runs", [])
            rec = dict(log=os.path.basename(log), check=m.group(1), tier="quick", exit=int(m.group(2)), violations=int(m.group(3)), detected=m.group(2) == "1")
            if rec not in runs:
                runs.append(rec)
            meta["detected_by_current_checks"] = runs[-1]["detected"]
            json.dump(meta, open(mp, "w"), indent=1)
print("recorded")
