#!/usr/bin/env python3
"""tools/tier_table.py <quick evidence dir> [<thorough evidence dir>]: a markdown table of what each tier measured"""
import json, os, sys


def row(d):
    if d is None:
        return "—"
    c = d["coverage"]
    parts = []
    for k, lab in (("traces_validated_against_impl", "parses vs R"), ("evaluations", "evaluations"), ("states", "TLC states"), ("groups", "grammars"),
                   ("variants", "parsers"), ("programs", "programs")):
        if c.get(k):
            parts.append("%s %s" % (f"{c[k]:,}".replace(",", " "), lab))
    for k in ("design_model", "t2", "optimizer_model"):
        if isinstance(c.get(k), dict):
            v = c[k]
            if k == "t2":
                parts.append("T2 %d traces / %d rejected" % (v.get("traces", 0), v.get("rejected", 0)))
            elif k == "design_model":
                parts.append("M: %s cases, %s states" % (v.get("cases"), v.get("states")))
            else:
                parts.append("Optimize.tla: %s grammars judged, %s states explored, %s/%s reachable" % (
                    v.get("grammars"), v.get("rewriting", {}).get("states"), v.get("rewriting", {}).get("real_result_reachable"), v.get("rewriting", {}).get("grammars")))
    return "%ds; " % d["wall_s"] + "; ".join(parts[:6])


def load(dirname, pid):
    if not dirname:
        return None
    p = os.path.join(dirname, pid + ".json")
    return json.load(open(p)) if os.path.exists(p) else None


q = sys.argv[1]
t = sys.argv[2] if len(sys.argv) > 2 else None
print("| id | level | quick (measured) | thorough (measured) |")
print("|---|---|---|---|")
for i in range(1, 21):
    pid = "C%02d" % i
    dq, dt = load(q, pid), load(t, pid)
    print("| %s | %s | %s | %s |" % (pid, (dq or dt or {}).get("level", ""), row(dq), row(dt)))
